"""The inner / outer / gym / state-wrapper machine (coq/Model/Gym.v) against the real objects: one InnerEnv wrapped by one
OuterEnv, one GymEnvironment and one GymStateWrapper, driven by a single operation sequence that may address any layer."""
import numpy as np

import vt.boot  # noqa: F401
import gym_gridverse.debugging as gvdebug
from gym_gridverse.gym import GymEnvironment, GymStateWrapper
from gym_gridverse.outer_env import OuterEnv
from gym_gridverse.representations.observation_representations import make_observation_representation
from gym_gridverse.representations.state_representations import make_state_representation

from vt import access, comp, envs, impl, wire

KINDS = ['default', 'no-overlap', 'compact']
OPCODES = {'ireset': [0, 0], 'istate': [0, 2], 'iobs': [0, 3], 'oreset': [1], 'oobs': [3], 'ostate': [4], 'greset': [5], 'gobs': [7], 'gstate': [8],
           'wreset': [11], 'wobs': [13]}


def enc_ops(ops):
    out = [len(ops)]
    for kind, arg in ops:
        if kind in OPCODES:
            out.extend(OPCODES[kind])
        elif kind == 'istep':
            out.extend([0, 1, arg])
        elif kind == 'ostep':
            out.extend([2, arg])
        elif kind == 'gstep':
            out.extend([6, arg])
        elif kind == 'wstep':
            out.extend([12, arg])
        elif kind == 'set_srep':
            out.extend([9, arg])
        elif kind == 'set_orep':
            out.extend([10, arg])
        else:
            raise ValueError(kind)
    return out


def c_orepr(d):
    return ('orepr', [[[int(v) for v in cell] for cell in row] for row in d['grid']], [[int(v) for v in row] for row in d['agent_id_grid']],
            [int(v) for v in d['item']])


def c_srepr(d):
    a = d['agent']
    return ('srepr', [[[int(v) for v in cell] for cell in row] for row in d['grid']], [[int(v) for v in row] for row in d['agent_id_grid']],
            (float(a[0]), float(a[1]), [int(v) for v in a[2:]]), [int(v) for v in d['item']])


class Stack:
    """the real objects"""

    def __init__(self, inner, sname, oname):
        srep = make_state_representation(KINDS[sname], inner.state_space) if sname is not None and sname < 3 else None
        orep = make_observation_representation(KINDS[oname], inner.observation_space) if oname is not None and oname < 3 else None
        self.sname = sname if sname is not None and sname < 3 else None
        self.oname = oname if oname is not None and oname < 3 else None
        self.problems = []
        self.inner = inner
        self.outer = OuterEnv(inner, state_representation=srep, observation_representation=orep)
        self.gym = GymEnvironment(self.outer)
        self.wrap = GymStateWrapper(self.gym)

    def check_step(self, prev, action, rwd, done):
        """the reward and flag handed out are the inner environment's own components evaluated on (previous state, action, new state)"""
        if prev is None or not access.has_state(self.inner):
            return
        try:
            exp_r = access.reward_function(self.inner)(prev, action, self.inner.state)
            exp_d = access.termination_function(self.inner)(prev, action, self.inner.state)
        except access.AccessError:
            return
        if not (float(exp_r) == float(rwd) or abs(float(exp_r) - float(rwd)) <= 1e-9 * max(1.0, abs(float(rwd)))) or bool(exp_d) != bool(done) or type(done) is not bool:
            self.problems.append(f'step returned (reward {rwd!r}, done {done!r}); the inner reward / termination on (state, {action.name}, next state) give ({exp_r!r}, {exp_d!r})')

    def do(self, kind, arg):
        A = envs.ACTS
        if kind == 'ireset':
            self.inner.reset()
            return ('inner', ('unit',))
        if kind == 'istep':
            rwd, done = self.inner.step(A[arg])
            return ('inner', ('step', rwd, done))
        if kind == 'istate':
            return ('inner', ('state', wire.cstate(self.inner.state)))
        if kind == 'iobs':
            return ('inner', ('obs', wire.cstate(self.inner.observation)))
        if kind == 'oreset':
            self.outer.reset()
            return ('unit',)
        if kind == 'ostep':
            prev = self.inner.state if access.has_state(self.inner) else None
            rwd, done = self.outer.step(A[arg])
            self.check_step(prev, A[arg], rwd, done)
            return ('inner', ('step', rwd, done))
        if kind == 'oobs':
            return c_orepr(self.outer.observation)
        if kind == 'ostate':
            return c_srepr(self.outer.state)
        if kind == 'greset':
            return c_orepr(self.gym.reset())
        if kind == 'gstep':
            prev = self.inner.state if access.has_state(self.inner) else None
            o, rwd, done, info = self.gym.step(arg)
            if info != {}:
                raise AssertionError('info not empty')
            self.check_step(prev, self.inner.action_space.int_to_action(arg), rwd, done)
            return ('gstep', c_orepr(o), rwd, done)
        if kind == 'gobs':
            return c_orepr(self.gym.observation)
        if kind == 'gstate':
            return c_srepr(self.gym.state)
        if kind == 'set_srep':
            self.gym.set_state_representation(KINDS[arg] if arg < 3 else 'no-such-representation')
            self.wrap.observation_space = self.gym.state_space
            self.sname = arg
            return ('unit',)
        if kind == 'set_orep':
            self.gym.set_observation_representation(KINDS[arg] if arg < 3 else 'no-such-representation')
            self.oname = arg
            return ('unit',)
        if kind == 'wreset':
            return c_srepr(self.wrap.reset())
        if kind == 'wstep':
            prev = self.inner.state if access.has_state(self.inner) else None
            s, rwd, done, info = self.wrap.step(arg)
            if set(info) != {'observation'}:
                raise AssertionError('info keys')
            self.check_step(prev, self.inner.action_space.int_to_action(arg), rwd, done)
            return ('wstep', c_srepr(s), rwd, done, c_orepr(info['observation']))
        if kind == 'wobs':
            return c_srepr(self.wrap.observation)
        raise ValueError(kind)


def run_ops(inner, sname, oname, ops, debug, seed, deterministic_obs=False):
    gvdebug.reset_gv_debug(debug)
    outs = []
    stack = None
    problems = []
    try:
        with impl.Journal(seed) as j:
            access.set_rng(inner, j.own)
            access.forget(inner)
            stack = Stack(inner, sname, oname)
            stack.deterministic_obs = deterministic_obs
            for kind, arg in ops:
                try:
                    out = stack.do(kind, arg)
                    outs.append(('ok', out))
                except Exception as e:  # noqa: BLE001
                    outs.append(('err', wire.EXN_NAMES.get(wire.exn_code(e), type(e).__name__)))
                    continue
                bad = truth(stack, kind, out)
                if bad:
                    problems.append((len(outs) - 1, bad))
                while stack.problems:
                    problems.append((len(outs) - 1, stack.problems.pop(0)))
    finally:
        gvdebug.reset_gv_debug(None)
    return outs, list(j.log), list(j.tape), stack, problems


def request(desc, debug, sname, oname, ops, tape):
    return [15, *comp.enc_env(desc), 1 if debug else 0, 3 if sname is None else sname, 3 if oname is None else oname, *enc_ops(ops), *wire.etape(tape)]


def decode(desc, ans):
    R = wire.Reader(ans)

    def nested3():
        return R.lst(lambda: R.lst(lambda: R.lst(R.z)))

    def orepr():
        g = nested3()
        a = R.lst(lambda: R.lst(R.z))
        return ('orepr', g, a, [R.z(), R.z(), R.z()])

    def srepr():
        g = nested3()
        a = R.lst(lambda: R.lst(R.z))
        yn, yd, xn, xd = R.z(), R.z(), R.z(), R.z()
        oh = [R.z() for _ in range(4)]
        return ('srepr', g, a, (yn / yd, xn / xd, oh), [R.z(), R.z(), R.z()])

    def rw():
        v = comp.read_rv(R)
        return comp.eval_rv(desc['reward'], v)

    def iout():
        tag = R.z()
        if tag == 0:
            return ('unit',)
        if tag == 1:
            r = rw()
            return ('step', r, bool(R.z()))
        if tag == 2:
            return ('state', R.state())
        if tag == 3:
            return ('obs', R.state())
        raise ValueError(tag)

    def out():
        tag = R.z()
        if tag == 0:
            return ('unit',)
        if tag == 1:
            return ('inner', iout())
        if tag == 2:
            return orepr()
        if tag == 3:
            return srepr()
        if tag == 4:
            o = orepr()
            r = rw()
            return ('gstep', o, r, bool(R.z()))
        if tag == 5:
            s = srepr()
            r = rw()
            t = bool(R.z())
            return ('wstep', s, r, t, orepr())
        raise ValueError(tag)

    return R.outcome(lambda: R.lst(lambda: R.res(out)))


def rand_ops(r, desc, n, layers):
    """operation sequences mixing the layers in `layers` (subset of 'i', 'o', 'g', 'w'); read patterns none/every/repeated/mixed,
    mid-episode resets, reads before the first reset, action indices outside the space, representation switches"""
    na = len(desc['actions'])
    ops = []

    def read():
        L = r.choice(layers)
        return r.choice({'i': [('iobs', None), ('istate', None)], 'o': [('oobs', None), ('ostate', None)],
                         'g': [('gobs', None), ('gstate', None)], 'w': [('wobs', None)]}[L])

    def reset():
        return {'i': ('ireset', None), 'o': ('oreset', None), 'g': ('greset', None), 'w': ('wreset', None)}[r.choice(layers)]

    def step():
        L = r.choice(layers)
        if L in 'io':
            a = r.choice(desc['actions']) if r.random() < 0.95 else r.randrange(8)
            return ('istep' if L == 'i' else 'ostep', a)
        i = r.randrange(na) if r.random() < 0.93 else r.choice([-1, na, -na, na + 3, -na - 1])
        return ('gstep' if L == 'g' else 'wstep', i)

    if r.random() < 0.2:
        ops.append(r.choice([read(), step()]))
    ops.append(reset())
    pattern = r.choice(['none', 'every', 'repeated', 'mixed'])
    for _ in range(n):
        k = r.random()
        if k < 0.06:
            ops.append(reset())
        elif k < 0.10 and ('g' in layers or 'w' in layers):
            kind = r.choice([0, 1, 2, 2, 1, 3])
            ops.append((r.choice(['set_srep', 'set_orep']), kind))
            if r.random() < 0.5:
                # the state side and the observation side are switched to the SAME kind one after the other (both orders), then both are read
                ops[-1] = (r.choice(['set_srep', 'set_orep']), kind)
                ops.append(('set_orep' if ops[-1][0] == 'set_srep' else 'set_srep', kind))
                if 'g' in layers:
                    ops.extend([('gstate', None), ('gobs', None)])
        else:
            ops.append(step())
        if pattern == 'every':
            ops.append(read())
        elif pattern == 'repeated':
            ops.extend([read()] * r.randint(0, 3))
        elif pattern == 'mixed':
            for _ in range(r.randint(0, 3)):
                ops.append(read())
    return ops


def truth(stack, kind, out):
    """the statement of C04 (last clause) / C20 on one successful operation: what the outer / gym / wrapper layer returned is the
    representation (by a FRESH converter) of the inner environment's current observation / state, and lies in the advertised gym
    space.  Returns a description of the failure or None.  Reads of inner.observation here are memoised reads."""
    inner = stack.inner
    want_o = want_s = None
    if kind in ('oobs', 'gobs', 'greset'):
        want_o = out
    elif kind == 'gstep':
        want_o = out[1]
    elif kind in ('ostate', 'gstate', 'wobs', 'wreset'):
        want_s = out
    elif kind == 'wstep':
        want_s, want_o = out[1], out[4]
    if want_o is not None and getattr(stack, 'deterministic_obs', False):
        # never stale: with a deterministic observation function the current observation IS the function of the current state
        if wire.cstate(inner.functional_observation(inner.state)) != wire.cstate(inner.observation):
            return f'`{kind}` handed out a stale observation: it is not the observation of the current state'
    if want_o is not None and stack.oname is not None:
        fresh = make_observation_representation(KINDS[stack.oname], inner.observation_space)
        exp = fresh.convert(inner.observation)
        if c_orepr(exp) != want_o:
            return f'`{kind}` did not return the `{KINDS[stack.oname]}` representation of the inner environment\'s current observation'
        if kind in ('gobs', 'greset', 'gstep') and not stack.gym.observation_space.contains(exp):
            return f'`{kind}`: the observation is outside the advertised gym observation space'
    if want_s is not None and stack.sname is not None:
        fresh = make_state_representation(KINDS[stack.sname], inner.state_space)
        exp = fresh.convert(inner.state)
        if c_srepr(exp) != want_s:
            return f'`{kind}` did not return the `{KINDS[stack.sname]}` representation of the inner environment\'s current state'
        if kind in ('gstate', 'wobs', 'wreset', 'wstep') and not stack.gym.state_space.contains(exp):
            return f'`{kind}`: the state is outside the advertised gym state space'
        if kind in ('wobs', 'wreset', 'wstep') and stack.wrap.observation_space is not stack.gym.state_space:
            return 'the state wrapper does not advertise the state space as its observation space'
    return None
