"""Adapters that call the real code (through its registries) with recording generators."""
import numpy as np

import vt.boot  # noqa: F401
import gym_gridverse.rng as gvrng
from gym_gridverse.action import Action
from gym_gridverse.envs import transition_functions as tf

from vt import wire
from vt.rngproxy import RecordingRng, ScriptedRng

ACTS = list(Action)
TNAMES = ['move_agent', 'turn_agent', 'pickndrop', 'move_obstacles', 'actuate_door', 'actuate_box', 'teleport']


def _np_legacy_state():
    st = np.random.get_state()
    return (st[0], st[1].tobytes(), st[2], st[3], st[4])


class Journal:
    """merged, ordered log of the draws made on the environment's and on the library-level generator"""

    def __init__(self, seed=0, script=None):
        self.log = []
        self.tape = []
        if script is None:
            self.own = RecordingRng(np.random.default_rng(seed))
            self.glob = RecordingRng(np.random.default_rng(seed + 7919), is_global=True)
        else:
            self.own = ScriptedRng(script)
            self.glob = ScriptedRng([], is_global=True)
        self.own.log = self.glob.log = self.log
        self.own.tape = self.glob.tape = self.tape

    def __enter__(self):
        import random
        from vt import access
        self.saved = access.get_global()
        access.set_global(self.glob)
        self._np0 = _np_legacy_state()
        self._py0 = random.getstate()
        self.touched = []
        return self

    def __exit__(self, *exc):
        import random
        # the process-wide generators a seeded component must never touch (C02): numpy's legacy global, python's `random`, and the
        # library-level generator object itself (a component calling reset_gv_rng() would replace the proxy)
        if _np_legacy_state() != self._np0:
            self.touched.append('numpy.random (legacy global state)')
        if random.getstate() != self._py0:
            self.touched.append('random (python global state)')
        from vt import access
        if access.get_global() is not self.glob:
            self.touched.append('the library-level generator of gym_gridverse.rng was replaced')
        access.set_global(self.saved)
        return False

    def global_draws(self):
        return [e for e in self.log if e[0] == 1]


def run_transition(names, cs, action, own, seed=0, script=None, share=None, sub=None):
    """-> (kind, value, log, tape): kind 'ok' (value = canonical next state) or 'err' (value = exception name)"""
    if sub is None and seed % 5 == 2:
        # one case in five: all objects of one of the types present are instances of a USER SUBCLASS of that built-in type
        present = sorted({c[0] for row in cs[0] for c in row} | {cs[3][0]})
        present = [t for t in present if wire.grid_object_registry[t].__name__ not in ('NoneGridObject', 'Hidden')]
        if present:
            sub = present[(seed // 5) % len(present)]
    s = wire.mkstate(cs, share=(seed % 3 == 1) if share is None else share, sub=sub)      # one case in three: equal stateless objects are shared instances
    if seed % 4 == 3 and sub is None:
        # one case in four: the functions work on the library's own COPY of the state (what transition_with_copy / functional_step do);
        # a copy that loses or merges anything shows up in every oracle that compares the result with the input
        from gym_gridverse.utils.fast_copy import fast_copy
        s = fast_copy(s)
    with Journal(seed, script) as j:
        try:
            for n in names:
                tf.transition_function_registry[TNAMES[n]](s, ACTS[action], rng=j.own if own else None)
            out = ('ok', wire.cstate(s))
        except Exception as e:  # noqa: BLE001
            from vt.rngproxy import NeedMore
            if isinstance(e, NeedMore):
                raise
            out = ('err', wire.EXN_NAMES.get(wire.exn_code(e), type(e).__name__))
    return out[0], out[1], list(j.log), list(j.tape)


def transition_request(names, own, action, cs, tape):
    return [2, len(names), *names, 1 if own else 0, action, *wire.estate(cs), *wire.etape(tape)]


def decode_transition(ans):
    R = wire.Reader(ans)
    kind, val, log = R.outcome(R.state)
    if kind != 'undecodable' and not R.done():
        kind = 'trailing'
    return kind, val, [(g, k, a, b) for (g, k, a, b) in log]


def norm_log(log):
    return [(int(g), k, int(a), int(b)) for (g, k, a, b) in log]
