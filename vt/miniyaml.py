"""A loader for the YAML subset used by gym-gridverse's shipped configurations.

Supported: block mappings, block sequences ("- item", also "- key: value" starting a mapping),
flow sequences "[ a, [b, c] ]", plain scalars (int, float, bool, null, strings), comments.
Anything else raises ValueError (fail closed).  Installed as sys.modules['yaml'] (safe_load only).
"""
import re
import sys
import types


def _scalar(tok):
    t = tok.strip()
    if t == '' or t in ('~', 'null', 'Null', 'NULL'):
        return None
    if t in ('true', 'True', 'TRUE'):
        return True
    if t in ('false', 'False', 'FALSE'):
        return False
    if re.fullmatch(r'[-+]?[0-9]+', t):
        return int(t)
    if re.fullmatch(r'[-+]?(\.[0-9]+|[0-9]+(\.[0-9]*)?)([eE][-+]?[0-9]+)?', t):
        return float(t)
    if (t[0] == t[-1] == '"' or t[0] == t[-1] == "'") and len(t) >= 2:
        return t[1:-1]
    if any(c in t for c in '{}[]&*!|>%@`'):
        raise ValueError(f'unsupported yaml scalar {t!r}')
    return t


def _flow(s, i):
    """parse a flow sequence starting at s[i] == '['; returns (value, next index)"""
    assert s[i] == '['
    i += 1
    out = []
    cur = ''
    while True:
        if i >= len(s):
            raise ValueError('unterminated flow sequence')
        c = s[i]
        if c == '[':
            if cur.strip():
                raise ValueError('unexpected [')
            v, i = _flow(s, i)
            out.append(v)
            cur = None
            continue
        if c in ',]':
            if cur is None:
                cur = ''
            elif cur.strip() != '' or (c == ',' ):
                if cur.strip() == '' and c == ',':
                    raise ValueError('empty flow entry')
                out.append(_scalar(cur))
                cur = ''
            i += 1
            if c == ']':
                return out, i
            continue
        if cur is None:
            if c.isspace():
                i += 1
                continue
            raise ValueError('junk after nested flow sequence')
        cur += c
        i += 1


def _value(text):
    t = text.strip()
    if t.startswith('['):
        v, j = _flow(t, 0)
        if t[j:].strip():
            raise ValueError(f'junk after flow sequence: {t[j:]!r}')
        return v
    if t.startswith('{'):
        raise ValueError('flow mappings unsupported')
    return _scalar(t)


def _strip_comment(line):
    out = ''
    q = None
    for k, c in enumerate(line):
        if q:
            if c == q:
                q = None
        elif c in '"\'':
            q = c
        elif c == '#' and (k == 0 or line[k - 1].isspace()):
            break
        out += c
    return out.rstrip()


def loads(text):
    lines = []
    for raw in text.splitlines():
        if '\t' in raw[: len(raw) - len(raw.lstrip())]:
            raise ValueError('tabs in indentation')
        s = _strip_comment(raw)
        if s.strip() == '' or s.strip() == '---':
            continue
        lines.append((len(s) - len(s.lstrip(' ')), s.strip()))
    pos = [0]

    def block(indent):
        # decides between sequence and mapping at this indentation
        if pos[0] >= len(lines):
            return None
        ind, s = lines[pos[0]]
        if ind < indent:
            return None
        if s.startswith('- ') or s == '-':
            return seq(ind)
        return mapping(ind)

    def seq(indent):
        out = []
        while pos[0] < len(lines):
            ind, s = lines[pos[0]]
            if ind != indent or not (s.startswith('- ') or s == '-'):
                if ind > indent:
                    raise ValueError('bad indentation in sequence')
                break
            rest = s[1:].lstrip()
            extra = len(s) - len(rest)
            if rest == '':
                pos[0] += 1
                out.append(block(indent + 1))
            elif re.match(r'^[^\[\]{}"\':]+:(\s|$)', rest):
                # "- key: value" starts a mapping whose keys are indented at indent+extra
                lines[pos[0]] = (indent + extra, rest)
                out.append(mapping(indent + extra))
            else:
                pos[0] += 1
                out.append(_value(rest))
        return out

    def mapping(indent):
        out = {}
        while pos[0] < len(lines):
            ind, s = lines[pos[0]]
            if ind != indent:
                if ind > indent:
                    raise ValueError(f'bad indentation at {s!r}')
                break
            m = re.match(r'^([^\[\]{}"\':]+):(\s+(.*))?$', s)
            if not m:
                raise ValueError(f'expected "key: value", got {s!r}')
            key = _scalar(m.group(1))
            rest = (m.group(3) or '').strip()
            pos[0] += 1
            if key in out:
                raise ValueError(f'duplicate key {key!r}')
            if rest == '':
                if pos[0] < len(lines) and (
                    lines[pos[0]][0] > indent
                    or (lines[pos[0]][0] == indent and lines[pos[0]][1].startswith('- '))
                ):
                    out[key] = block(lines[pos[0]][0])
                else:
                    out[key] = None
            else:
                out[key] = _value(rest)
        return out

    v = block(0)
    if pos[0] != len(lines):
        raise ValueError(f'could not parse line {lines[pos[0]]!r}')
    return v


def safe_load(stream):
    text = stream if isinstance(stream, str) else stream.read()
    return loads(text)


def tokens_of_value(v):
    """flat token list of a parsed structure, in document order (for the token audit)"""
    out = []
    if isinstance(v, dict):
        for k, x in v.items():
            out.append(str(k))
            out.extend(tokens_of_value(x))
    elif isinstance(v, list):
        for x in v:
            out.extend(tokens_of_value(x))
    elif v is None:
        pass
    else:
        out.append(repr(v) if isinstance(v, float) else str(v))
    return out


def tokens_of_text(text):
    out = []
    for raw in text.splitlines():
        s = _strip_comment(raw)
        s = re.sub(r':(\s|$)', ' ', s)
        for t in re.split(r'[\s,\[\]]+|^-\s|(?<=\s)-\s', s):
            if t is None:
                continue
            t = t.strip()
            if t and t != '-':
                out.append(t)
    return out


def audit(text):
    """every non-comment token of the file occurs, in order, in the parsed structure"""
    a = tokens_of_text(text)
    b = tokens_of_value(loads(text))
    norm = lambda t: repr(float(t)) if re.fullmatch(r'[-+]?[0-9]*\.[0-9]+([eE][-+]?[0-9]+)?|[-+]?[0-9]+\.[0-9]*', t) else t
    return [norm(t) for t in a] == [norm(t) for t in b]


def install():
    mod = sys.modules.get('yaml')
    if mod is not None and hasattr(mod, 'safe_load'):
        return
    if mod is not None:
        # `import yaml` already happened (gym_gridverse.gym imports the yaml factory): it resolved to the namespace package /repo/yaml;
        # modules that bound that object must see safe_load too
        mod.safe_load = safe_load
        mod.__verif_shim__ = True
    m = types.ModuleType('yaml')
    m.safe_load = safe_load
    m.__verif_shim__ = True
    sys.modules['yaml'] = m
