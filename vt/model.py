"""Runs the extracted model (build/extract/gvmodel) on batches of requests."""
import os
import subprocess

from vt.build import BUILD


class ModelError(Exception):
    pass


def run_batch(requests, chunk=20000):
    """requests: list of int lists -> list of int lists"""
    exe = os.path.join(BUILD, 'extract', 'gvmodel')
    out = []
    for i in range(0, len(requests), chunk):
        part = requests[i:i + chunk]
        data = '\n'.join(' '.join(str(int(v)) for v in r) for r in part) + '\n'
        p = subprocess.run([exe], input=data, capture_output=True, text=True)
        if p.returncode != 0:
            raise ModelError(f'gvmodel failed: {p.stderr[-2000:]}')
        lines = p.stdout.split('\n')
        if lines and lines[-1] == '':
            lines.pop()
        if len(lines) != len(part):
            raise ModelError(f'gvmodel answered {len(lines)} lines for {len(part)} requests')
        out.extend([int(t) for t in ln.split()] for ln in lines)
    return out
