"""Shared machinery for the observation properties (C05 C06 C07): run the real observation functions with a recording
generator, compare with the extracted model (observation, exception class, draw log)."""
import vt.boot  # noqa: F401
from gym_gridverse.geometry import Area, Orientation, Position

from vt import comp, gen, impl, wire

ONAMES = ['fully_transparent', 'partially_occluded', 'raytracing', 'stochastic_raytracing']


def run_obs(name, area, cs, own=True, seed=0, state=None):
    """-> (kind, value, log, tape, python observation or None, python state)"""
    s = state if state is not None else wire.mkstate(cs)
    f = comp.build_obs({'name': name, 'area': area})
    with impl.Journal(seed) as j:
        try:
            o = f(s, rng=j.own if own else None)
            out = ('ok', wire.cstate(o), o)
        except Exception as e:  # noqa: BLE001
            out = ('err', wire.EXN_NAMES.get(wire.exn_code(e), type(e).__name__), None)
    return out[0], out[1], list(j.log), list(j.tape), out[2], s


def obs_request(name, area, cs, tape, own=True):
    rays = comp.rays_for({'name': name, 'area': area})
    return [6, comp.V_TAGS[name], 1 if own else 0, *area, *comp.enc_rays(rays), *wire.estate(cs), *wire.etape(tape)]


def decode_obs(ans):
    R = wire.Reader(ans)
    kind, val, log = R.outcome(R.state)
    if kind != 'undecodable' and not R.done():
        kind = 'trailing'
    return kind, val, log


def rand_area(r, centered=0.5, maxh=7, maxw=7):
    """view areas of any extent: the usual 'agent at the bottom centre' shape, asymmetric ones, ones not containing the agent"""
    k = r.random()
    if r.random() < 0.08:
        # one-cell and one-line views, anywhere around the agent
        y0, x0 = r.randint(-3, 3), r.randint(-3, 3)
        return r.choice([(y0, y0, x0, x0), (y0, y0, x0, x0 + r.randint(1, 3)), (y0, y0 + r.randint(1, 3), x0, x0)])
    if k < centered:
        h = r.randint(1, maxh)
        half = r.randint(0, maxw // 2)
        return (-(h - 1), 0, -half, half)
    if k < 0.85:
        y0, x0 = r.randint(-4, 1), r.randint(-4, 1)
        return (y0, y0 + r.randint(0, 5), x0, x0 + r.randint(0, 5))
    y0, x0 = r.randint(-6, 6), r.randint(-6, 6)
    return (y0, y0 + r.randint(0, 3), x0, x0 + r.randint(0, 3))


def tagged_state(r, lo=1, hi=8):
    """grid whose non-floor cells are pairwise distinct objects where possible (so a misplaced cell cannot coincide)"""
    h, w = gen.rand_shape(r, lo, hi)
    base = gen.all_objects(depth=0)
    pool = [o for o in base if o[0] != gen.TY['Floor']] + [(gen.TY['Box'], 0, 0, b) for b in base]
    r.shuffle(pool)
    cells = []
    for i in range(h * w):
        cells.append(gen.FLOOR if r.random() < 0.35 or not pool else pool.pop())
    g = tuple(tuple(cells[i * w + j] for j in range(w)) for i in range(h))
    p, o = gen.rand_pose(r, h, w)
    return (g, p, o, gen.rand_held(r))


def large_cases(r, n):
    """a few LARGE worlds and views (well above the sizes of the shipped configurations: 30..40 cells a side, views of 25..41 rows): whatever the
    code does differently for big inputs is exercised; pose inside, on the edge and in the corner; centred and off-centre views"""
    out = []
    base = [o for o in gen.all_objects(depth=0) if o[0] != gen.TY['Floor']]
    for _ in range(n):
        h, w = r.randint(30, 40), r.randint(30, 40)
        g = tuple(tuple(gen.FLOOR if r.random() < 0.6 else r.choice(base) for _ in range(w)) for _ in range(h))
        p, o = gen.rand_pose(r, h, w, edge_bias=0.5)
        vh, half = r.choice([(25, 12), (27, 16), (33, 16), (33, 16), (35, 17), (41, 13)])      # up to 1100..1400 cells in view
        area = (-(vh - 1), 0, -half, half) if r.random() < 0.7 else (-(vh - 5), 4, -half + 3, half + 3)
        out.append((area, (g, p, o, gen.rand_held(r))))
    return out


def compare(ctx, metas, reqs, what='observation'):
    answers = ctx.model(reqs)
    if answers is None:
        return
    for (name, area, cs, kind, val, log), ans in zip(metas, answers):
        mk, mv, mlog = decode_obs(ans)
        if (mk, mv) != (kind, val) or impl.norm_log(mlog) != impl.norm_log(log):
            if name == 'stochastic_raytracing' and mk == kind == 'ok' and impl.norm_log(mlog) == impl.norm_log(log):
                # float near-tie between u and num/den: counted, not a disagreement (DESIGN 4.2)
                ctx.count('stochastic near-tie skipped', 1)
                continue
            ctx.disagreement(f'{what}: implementation and model differ',
                             {'function': name, 'area': area, 'state': gen.show_state(cs), 'wire_state': cs,
                              'impl': [kind, val, log], 'model': [mk, mv, mlog]})


def run_histories(ctx, n, check=None):
    """Observation functions are history-free: several observations (different functions, the same or a different view) of ONE python
    state object which is, in between, moved / turned / actuated IN PLACE by the registered transition functions and copied the way
    GridWorld copies states (pickle round trip).  Every observation is compared with the model on the state's current value and handed
    to `check(name, area, cs, kind, val, obs, state)`; an observation must not modify the state it is given."""
    import pickle
    from gym_gridverse.envs import transition_functions as tf
    r = ctx.rng
    metas, reqs = [], []
    for _ in range(n):
        cs = tagged_state(r, 2, 7)
        if r.random() < 0.5:
            cs = (cs[0], cs[1], 0, cs[3])       # facing FORWARD: the only heading whose rotation is the identity (shares rows)
        area0 = rand_area(r, centered=0.8)
        if r.random() < 0.3:
            # fully aligned: the view is exactly the grid (same shape, agent on the anchor cell facing FORWARD) -- nothing to crop, pad or rotate
            hh, half = r.randint(1, 5), r.randint(0, 2)
            g = gen.rand_grid(r, hh, 2 * half + 1, floor_bias=0.5)
            cs = (g, (hh - 1, half), 0, gen.rand_held(r))
            area0 = (-(hh - 1), 0, -half, half)
        s = wire.mkstate(cs)
        for _step in range(r.randint(3, 8)):
            k = r.random()
            if k < 0.55:
                name = r.choice(ONAMES)
                area = area0 if r.random() < 0.8 else rand_area(r)
                now = wire.cstate(s)
                kind, val, log, tape, obs, _ = run_obs(name, area, now, seed=r.randrange(1 << 30), state=s)
                ctx.count('history event', 'observe')
                ctx.case(('hist', name, area, now, _step), True, None)
                if wire.cstate(s) != now:
                    ctx.violation(f'{name} modified the state it observed', {'function': name, 'area': area, 'state': gen.show_state(now), 'wire_state': now})
                if check is not None:
                    check(name, area, now, kind, val, obs, s)
                metas.append((name, area, now, kind, val, log))
                reqs.append(obs_request(name, area, now, tape))
            elif k < 0.88:
                fn = r.choice(['move_agent', 'move_agent', 'turn_agent', 'turn_agent', 'actuate_door', 'pickndrop', 'actuate_box'])
                # mostly an action the function reacts to (a move for move_agent, a turn for turn_agent ...): the pose / the world really changes
                fitting = {'move_agent': impl.ACTS[0:4], 'turn_agent': impl.ACTS[4:6], 'actuate_door': impl.ACTS[6:7], 'actuate_box': impl.ACTS[6:7], 'pickndrop': impl.ACTS[7:8]}[fn]
                try:
                    tf.transition_function_registry[fn](s, r.choice(fitting) if r.random() < 0.85 else r.choice(impl.ACTS))      # in place
                except Exception:  # noqa: BLE001  (not this property's business)
                    pass
                ctx.count('history event', 'in-place ' + fn)
            else:
                s = pickle.loads(pickle.dumps(s))
                ctx.count('history event', 'copy')
    compare(ctx, metas, reqs, what='observation after a history of other calls')
