"""T1 translator: the ray fans the running code computes -> coq/Gen/Rays.v (regenerated on every run; never committed).
  fans_in_use : the fan of every view used by a shipped configuration (agent cell = the view's anchor), by compute_rays_fancy
  fans_small  : every origin of every area up to 7x7 (anchored at 0) plus a few shifted areas
The kernel evaluates the verified checker `fan_ok` on all of them (Lemmas/C19G.v)."""
import vt.boot  # noqa: F401
from gym_gridverse.geometry import Area, Position
from gym_gridverse.utils.raytracing import compute_rays_fancy

from vt import envs


def zz(v):
    return f'({v})' if v < 0 else str(v)


def fan_term(area, pos):
    rays = compute_rays_fancy(pos, area)
    rs = '; '.join('[' + '; '.join(f'({zz(p.y)}, {zz(p.x)})' for p in ray) + ']' for ray in rays)
    return f'(mkA {zz(area.ymin)} {zz(area.ymax)} {zz(area.xmin)} {zz(area.xmax)}, ({zz(pos.y)}, {zz(pos.x)}), [{rs}])'


def views_in_use():
    seen = []
    for fname, data, desc in envs.shipped_envs():
        a = desc['obs']['area']
        h, w = a[1] - a[0] + 1, a[3] - a[2] + 1
        v = (h, w, -a[0], -a[2])
        if v not in seen:
            seen.append(v)
    return seen


def small_fans():
    out = []
    for h in range(1, 8):
        for w in range(1, 8):
            for y in range(h):
                for x in range(w):
                    out.append((Area((0, h - 1), (0, w - 1)), Position(y, x)))
    for (y0, x0, h, w) in ((-2, 1, 3, 2), (3, -4, 2, 3), (-3, -1, 3, 3)):
        for y in range(h):
            for x in range(w):
                out.append((Area((y0, y0 + h - 1), (x0, x0 + w - 1)), Position(y0 + y, x0 + x)))
    return out


def generate():
    out = ['(* GENERATED on every run by vt/rays.py from the ray code of /repo -- never edit, never commit. *)',
           'From Coq Require Import ZArith List.', 'From GV.Model Require Import Rays.', 'Import ListNotations.', 'Open Scope Z_scope.', '']
    use = [fan_term(Area((0, h - 1), (0, w - 1)), Position(y, x)) for (h, w, y, x) in views_in_use()]
    out.append('Definition fans_in_use : list (area * pos * list ray) := [\n  ' + ';\n  '.join(use) + '].')
    small = [fan_term(a, p) for a, p in small_fans()]
    out.append('Definition fans_small : list (area * pos * list ray) := [\n  ' + ';\n  '.join(small) + '].')
    return '\n'.join(out) + '\n'


if __name__ == '__main__':
    print(generate())
