"""Duck-typed numpy Generators.

RecordingRng wraps a real generator and logs every call as a model request
   (global?, kind, a, b)  with its answer (a list of ints).
ScriptedRng answers from a script and raises NeedMore(options) when it runs out, which lets a
DFS enumerate every random outcome of the real code.
"""
import numpy as np

TWO53 = 1 << 53


class NeedMore(Exception):
    def __init__(self, req):
        super().__init__(req)
        self.req = req


def _answers(req, limit=200000):
    """all valid answers of a request (lists of ints), or None when too many"""
    import itertools as itt
    kind, a, b = req
    if kind == 'choice':
        return [[i] for i in range(a)]
    if kind == 'integers':
        return [[i] for i in range(a, b + 1)]
    if kind == 'sample':
        n = 1
        for i in range(b):
            n *= (a - i)
        if n > limit:
            return None
        return [list(p) for p in itt.permutations(range(a), b)]
    if kind == 'perm':
        import math
        if math.factorial(a) > limit:
            return None
        return [list(p) for p in itt.permutations(range(a))]
    if kind == 'unif':
        return [[]] if a == 0 else None
    raise ValueError(kind)


class _Base:
    is_global = False

    def __init__(self):
        self.log = []   # [(global, kind, a, b)]
        self.tape = []  # [answer list]

    # -- the numpy API used by gym-gridverse --
    def choice(self, a, size=None, replace=True, **kw):
        if kw:
            raise TypeError(f'unsupported choice kwargs {kw}')
        seq = None
        if not isinstance(a, (int, np.integer)):
            seq = list(a)
            n = len(seq)
        else:
            n = int(a)
        if size is None:
            if n <= 0:
                raise ValueError('a must be greater than 0 unless no samples are taken')
            i = self._draw('choice', n, 0)[0]
            return seq[i] if seq is not None else i
        if replace:
            raise TypeError('choice with replacement is not used by gym-gridverse')
        k = int(size)
        if k < 0:
            raise ValueError('negative dimensions are not allowed')
        if k > n:
            raise ValueError('Cannot take a larger sample than population when replace is False')
        if n <= 0 and k != 0:
            raise ValueError('a cannot be empty unless no samples are taken')
        idx = self._draw('sample', n, k)
        if seq is not None:
            out = np.empty(k, dtype=object)
            for j, i in enumerate(idx):
                out[j] = seq[i]
            return out
        return np.array(idx, dtype=np.int64)

    def integers(self, low, high=None, size=None, endpoint=False, **kw):
        if kw or size is not None:
            raise TypeError('unsupported integers() usage')
        if high is None:
            low, high = 0, low
        lo, hi = int(low), int(high)
        if not endpoint:
            hi -= 1
        if hi < lo:
            raise ValueError('low >= high' if not endpoint else 'low > high')
        return np.int64(self._draw('integers', lo, hi)[0])

    def shuffle(self, x):
        n = len(x)
        perm = self._draw('perm', n, 0)
        old = list(x)
        for j, i in enumerate(perm):
            x[j] = old[i]

    def random(self, size=None):
        if size is None:
            z = self._draw('unif', 1, 0)[0]
            return z / TWO53
        shape = (size,) if isinstance(size, (int, np.integer)) else tuple(size)
        n = int(np.prod(shape)) if shape else 1
        zs = self._draw('unif', n, 0)
        return (np.array(zs, dtype=np.float64) / TWO53).reshape(shape)

    def _draw(self, kind, a, b):
        raise NotImplementedError


class RecordingRng(_Base):
    def __init__(self, gen, is_global=False):
        super().__init__()
        self.gen = gen
        self.is_global = is_global

    @property
    def bit_generator(self):
        return self.gen.bit_generator

    def _draw(self, kind, a, b):
        g = self.gen
        if kind == 'choice':
            ans = [int(g.choice(a))]
        elif kind == 'integers':
            ans = [int(g.integers(a, b, endpoint=True))]
        elif kind == 'sample':
            ans = [int(i) for i in g.choice(a, size=b, replace=False)]
        elif kind == 'perm':
            idx = list(range(a))
            g.shuffle(idx)
            ans = [int(i) for i in idx]
        elif kind == 'unif':
            us = g.random(a)
            ans = [int(u * TWO53) for u in us]
            assert all(z / TWO53 == u for z, u in zip(ans, us))
        else:
            raise ValueError(kind)
        self.log.append((1 if self.is_global else 0, kind, a, b))
        self.tape.append(ans)
        return ans


class ScriptedRng(_Base):
    def __init__(self, script, is_global=False):
        super().__init__()
        self.script = list(script)
        self.k = 0
        self.is_global = is_global

    def _draw(self, kind, a, b):
        self.log.append((1 if self.is_global else 0, kind, a, b))
        if self.k >= len(self.script):
            raise NeedMore((kind, a, b))
        ans = list(self.script[self.k])
        self.k += 1
        self.tape.append(ans)
        return ans


def enumerate_outcomes(run, max_leaves=20000):
    """DFS over all scripts: run(rng) -> result.  Yields (script, result | exception, log)."""
    stack = [[]]
    n = 0
    while stack:
        script = stack.pop()
        rng = ScriptedRng(script)
        try:
            r = run(rng)
        except NeedMore as need:
            opts = _answers(need.req)
            if opts is None:
                raise OverflowError(f'request {need.req} has too many answers')
            for ans in reversed(opts):
                stack.append(script + [ans])
            continue
        except Exception as e:  # a leaf that raises
            r = e
        n += 1
        if n > max_leaves:
            raise OverflowError('too many leaves')
        yield script, r, list(rng.log)
