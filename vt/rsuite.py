"""Shared machinery for the representation properties (C15 C16): real representations vs the model, spaces, member generators."""
import numpy as np

import vt.boot  # noqa: F401
from gym_gridverse.geometry import Shape
from gym_gridverse.grid_object import Color, grid_object_registry
from gym_gridverse.observation import Observation
from gym_gridverse.representations.observation_representations import make_observation_representation
from gym_gridverse.representations.state_representations import make_state_representation
from gym_gridverse.spaces import ObservationSpace, StateSpace

from vt import gen, wire

KINDS = ['default', 'no-overlap', 'compact']
TY = gen.TY
REPRESENTABLE = [t.type_index() for t in grid_object_registry if t.can_be_represented_in_state() and t.__name__ not in ('NoneGridObject',)]


_FLIP = [0]


def _declared(types, colors):
    """the sequences handed to a space constructor: lists or tuples (any sequence is a declaration); a list is EXTENDED by the caller right
    after the space was built -- a space is defined by what it was given, not by what the caller does with its own list afterwards"""
    _FLIP[0] += 1
    ts, cs = [grid_object_registry[t] for t in types], [Color(c) for c in colors]
    if _FLIP[0] % 3 == 1:
        return tuple(ts), tuple(cs), None
    return ts, cs, (ts, cs) if _FLIP[0] % 3 == 2 else None


def _after(space, given, types, colors):
    if given is not None:
        ts, cs = given
        extra_t = [t for t in grid_object_registry if t not in ts and t.__name__ not in ('NoneGridObject', 'Hidden')]
        extra_c = [c for c in Color if c not in cs]
        if extra_t:
            ts.append(extra_t[-1])
        if extra_c:
            cs.append(extra_c[-1])
        if set(space.object_types) != {grid_object_registry[t] for t in types} or set(space.colors) != {Color(c) for c in colors} | {Color.NONE}:
            raise AssertionError('the space changed when the caller extended the lists it had passed to the constructor')
    return space


def state_space(types, colors, shape):
    ts, cs, given = _declared(types, colors)
    return _after(StateSpace(Shape(*shape), ts, cs), given, types, colors)


def obs_space(types, colors, shape):
    ts, cs, given = _declared(types, colors)
    return _after(ObservationSpace(Shape(*shape), ts, cs), given, types, colors)


def model_sets(types, colors, is_state):
    ts = sorted(set(types) | ({TY['NoneGridObject']} if is_state else {TY['NoneGridObject'], TY['Hidden']}))
    cs = sorted(set(colors) | {0})
    return ts, cs


def request(kind, types, colors, is_state, cs_state):
    ts, cs = model_sets(types, colors, is_state)
    return [14, KINDS.index(kind), len(ts), *ts, len(cs), *cs, 1 if is_state else 0, *wire.estate(cs_state)]


def flatten_impl(rep, space, is_state):
    """flat list comparable with the model's answer; the two agent coordinates stay floats"""
    out = [int(v) for v in rep['grid'].reshape(-1)] + [int(v) for v in rep['agent_id_grid'].reshape(-1)]
    floats = None
    if is_state:
        floats = (float(rep['agent'][0]), float(rep['agent'][1]))
        out += [int(v) for v in rep['agent'][2:]]
    out += [int(v) for v in rep['item'].reshape(-1)]
    out += [int(v) for v in space['item'].upper_bound.reshape(-1)]
    return out, floats


def decode_model(ans, h, w, is_state):
    """-> (flat ints without the fractions, (y, x) floats computed with python's division) or ('err', name)"""
    if ans[0] == 1:
        return ('err', wire.EXN_NAMES.get(ans[1], '?')), None
    body = ans[1:]
    n = h * w * 3 + h * w
    ints = body[:n]
    rest = body[n:]
    floats = None
    if is_state:
        yn, yd, xn, xd = rest[:4]
        floats = (yn / yd, xn / xd)
        rest = rest[4:]
    return ints + rest, floats


def in_space(rep, space):
    """key by key: shape, dtype kind and bounds"""
    bad = []
    for k, arr in rep.items():
        sp = space[k]
        if not sp.contains(arr):
            bad.append(k)
    if set(rep) != set(space):
        bad.append('keys')
    return bad


def member_state(r, types, colors, shape, is_state):
    """a member of the space: every cell of a declared type / colour, valid status; observations may contain Hidden"""
    h, w = shape
    pool = list(types) + ([] if is_state else [TY['Hidden']])
    g = tuple(tuple(gen.rand_obj(r, pool, colors, depth=1, floor_bias=0.2) for _ in range(w)) for _ in range(h))
    p, o = gen.rand_pose(r, h, w)
    held = gen.NONE if r.random() < 0.3 else gen.rand_obj(r, list(types), colors, depth=1)
    return (g, p, o if is_state else 0, held)


def as_obs(co):
    s = wire.mkstate(co)
    return Observation(s.grid, s.agent)
