"""T1 translator: the live schema objects of gym_gridverse/envs/yaml/schemas.py (as the `schema` package holds them at run time, AFTER the
module's own loop has added the reserved keys), the Action / Color enumerations, the grid-object registry and the shipped configuration
trees -> coq/Gen/Schema.v (an instance [gen_tabs] of Model/Schema.v's table record, and [shipped_cfgs]).

Fail-closed: every schema object must be recognised -- a dictionary of literal / Optional(literal) / Optional(object) keys, the
non-empty list of a recognised dictionary schema, or a leaf whose accept/reject behaviour on a battery of probe values coincides with one
of the leaf kinds of the model.  Anything else raises, the translation fails and the check reports the broken tie."""
import vt.boot  # noqa: F401
from schema import And, Optional, Schema

from gym_gridverse.action import Action
from gym_gridverse.envs.yaml import schemas as S
from gym_gridverse.grid_object import Color, grid_object_registry

from vt import envs, signatures

K_ANY, K_STR, K_PAIR, K_COLORS, K_ACTIONS, K_OBJECTS, K_DIST = range(7)

_COL = [c.name for c in Color]
_ACT = [a.name for a in Action]
PROBES = [None, True, 0, 1, -1, 2.5, 'x', 'manhattan', 'euclidean', _COL[0], _ACT[0], [], [1], [1, 2], [0, 1], [2, -1], [1, 2, 3], [True, 1], [1.0, 2], (1, 2),
          [_COL[0]], [_COL[0], _COL[-1]], [_COL[0], _COL[0]], ['PURPLE'], [_ACT[0]], [_ACT[0], _ACT[1]], [_ACT[1], _ACT[1]], ['Wall'], ['Wall', 'Wall'],
          ['Wall', 'Lava'], [1, 'Wall'], [[1, 2]], {}, {'name': 'x'}, ['x', 7], [None],
          [_COL[0], _COL[-1], _COL[0]], [_ACT[0], _ACT[1], _ACT[0]], ['Wall', 'Floor', 'Wall'], [2, 1], [1, 1], [10 ** 6, 1], 'euclidean ', ['NONE '], [_ACT[0].lower()]]


def _uniq_strs(v, allowed=None):
    return (isinstance(v, list) and len(v) > 0 and all(isinstance(x, str) for x in v) and len(set(v)) == len(v)
            and (allowed is None or all(x in allowed for x in v)))


MIRROR = {      # the python reading of Model/Schema.v leaf_valid
    K_ANY: lambda v: True,
    K_STR: lambda v: isinstance(v, str),
    K_PAIR: lambda v: isinstance(v, list) and len(v) == 2 and all(isinstance(x, int) and not isinstance(x, bool) and x > 0 for x in v),
    K_COLORS: lambda v: _uniq_strs(v, _COL),
    K_ACTIONS: lambda v: _uniq_strs(v, _ACT),
    K_OBJECTS: lambda v: _uniq_strs(v),
    K_DIST: lambda v: isinstance(v, str) and v in ('manhattan', 'euclidean'),
}


class Tables:
    def __init__(self):
        self.kind_of = {}       # id(schema object) -> kind
        self.dicts = {}         # kind -> (required [(key, kind)], optional [(key, kind)], wild)
        self.lists = {}         # kind -> element kind
        self.next = 100

    def classify(self, sch):
        s = sch.schema if isinstance(sch, Schema) else sch
        while isinstance(s, Schema):
            s = s.schema
        if s is object:
            return K_ANY
        if id(s) in self.kind_of:
            return self.kind_of[id(s)]
        if isinstance(s, dict):
            k = self.next
            self.next += 1
            self.kind_of[id(s)] = k
            req, opt, wild = [], [], False
            for key, val in s.items():
                if isinstance(key, Optional):
                    inner = key.schema
                    if inner is object:
                        if self.classify(val) != K_ANY:
                            raise ValueError(f'schematab: wildcard key with a non-trivial value schema: {val!r}')
                        wild = True
                    elif isinstance(inner, str):
                        opt.append((inner, self.classify(val)))
                    else:
                        raise ValueError(f'schematab: unrecognised optional key {key!r}')
                elif isinstance(key, str):
                    req.append((key, self.classify(val)))
                else:
                    raise ValueError(f'schematab: unrecognised key {key!r}')
            self.dicts[k] = (req, opt, wild)
            return k
        if isinstance(s, And) and len(s.args) == 2 and isinstance(s.args[0], list) and len(s.args[0]) == 1:
            inner = s.args[0][0]
            base = inner.schema if isinstance(inner, Schema) else inner
            if isinstance(base, dict):
                ek = self.classify(inner)
                probe = Schema(s)
                if probe.is_valid([]) or probe.is_valid({'name': 'x'}) or not probe.is_valid([{'name': 'x'}]):
                    raise ValueError(f'schematab: {s!r} is not "a non-empty list of entries"')
                k = self.next
                self.next += 1
                self.kind_of[id(s)] = k
                self.lists[k] = ek
                return k
        probe = Schema(s)
        got = [probe.is_valid(p) for p in PROBES]
        for k, f in MIRROR.items():
            if got == [bool(f(p)) for p in PROBES]:
                self.kind_of[id(s)] = k
                return k
        raise ValueError(f'schematab: leaf schema {s!r} behaves like none of the modelled kinds (accepts {[p for p, g in zip(PROBES, got) if g]})')


LITERALS = ['name', 'state_space', 'action_space', 'observation_space', 'objects', 'colors', 'reset_function', 'transition_functions', 'reward_functions',
            'terminating_functions', 'observation_function', 'terminating_function', 'reward_function', 'distance_function', 'visibility_function', 'shape',
            'layout', 'area', 'object_type', 'chain', 'reduce_sum']


def all_strings():
    out = set(LITERALS) | set(_COL) | set(_ACT) | {'manhattan', 'euclidean'} | set(grid_object_registry.names())
    for sch in S.schemas.values():
        s = sch.schema
        if isinstance(s, dict):
            for key in s:
                inner = key.schema if isinstance(key, Optional) else key
                if isinstance(inner, str):
                    out.add(inner)
    return out


class Interner:
    """known strings: the regenerated table; others: fresh codes (>= 10000; >= 20000 when the string is a custom `module:name`)"""

    def __init__(self):
        self.tab = dict(signatures.intern_table())
        self.fresh = {}

    def __call__(self, s):
        if s in self.tab:
            return self.tab[s]
        if s not in self.fresh:
            self.fresh[s] = (20000 if ':' in s else 10000) + len(self.fresh)
        return self.fresh[s]


def cfg_term(v, intern):
    if v is None:
        return 'CNull'
    if isinstance(v, bool):
        return f'(CBool {"true" if v else "false"})'
    if isinstance(v, int):
        return f'(CInt ({v}))'
    if isinstance(v, float):
        return 'CFloat'
    if isinstance(v, str):
        return f'(CStr {intern(v)})'
    if isinstance(v, list):
        return '(CList [' + '; '.join(cfg_term(x, intern) for x in v) + '])'
    if isinstance(v, dict):
        return '(CDict [' + '; '.join(f'({cfg_term(k, intern)}, {cfg_term(x, intern)})' for k, x in v.items()) + '])'
    raise ValueError(f'schematab: value {v!r} is outside the configuration-tree language')


def cfg_wire(v, intern):
    if v is None:
        return [0]
    if isinstance(v, bool):
        return [1, int(v)]
    if isinstance(v, int):
        return [2, v] if abs(v) < (1 << 60) else [3]
    if isinstance(v, float):
        return [3]
    if isinstance(v, str):
        return [4, intern(v)]
    if isinstance(v, list):
        return [5, len(v)] + [z for x in v for z in cfg_wire(x, intern)]
    if isinstance(v, dict):
        return [6, len(v)] + [z for k, x in v.items() for z in cfg_wire(k, intern) + cfg_wire(x, intern)]
    raise ValueError(f'value {v!r} is outside the configuration-tree language')


def zl(l):
    return '[' + '; '.join(str(v) for v in l) + ']'


def generate():
    tab = signatures.intern_table()
    T = Tables()
    k_env = T.classify(S.schemas['env'])
    fn_names = ['reset_function', 'transition_function', 'reward_function', 'observation_function', 'visibility_function', 'terminating_function']
    fkinds = [T.classify(S.schemas[n]) for n in fn_names]
    shapes = {repr(sorted(T.dicts[k][0])) + repr(sorted(T.dicts[k][1])) + repr(T.dicts[k][2]) for k in fkinds}
    for n in ('shape', 'layout', 'object_type', 'colors', 'distance_function', 'reset_functions', 'transition_functions', 'reward_functions', 'terminating_functions'):
        T.classify(S.schemas[n])
    out = ['(* GENERATED on every run by vt/schematab.py from the live schema objects, enumerations and registries of /repo -- never edit, never commit. *)',
           'From Coq Require Import ZArith List Bool.', 'From GV.Model Require Import Schema.', 'From GV.Gen Require Import Signatures.',
           'Import ListNotations.', 'Open Scope Z_scope.', '']
    if len(shapes) != 1:
        out.append('(* the six component-entry schemas are no longer the same schema: the model has ONE kind for them *)')
        out.append('Definition component_entry_schemas_differ : False := I.')
    # the kind of a function entry: all six are structurally the same table; the model uses the first
    alias = {k: fkinds[0] for k in fkinds}

    def kk(k):
        return alias.get(k, k)

    def pairs(l):
        return '[' + '; '.join(f'({tab[key]}, {kk(k)})' for key, k in l) + ']'
    out.append('Definition gen_dict (k : Z) : option (list (Z * Z) * list (Z * Z) * bool) :=')
    out.append('  match k with')
    for k, (req, opt, wild) in sorted(T.dicts.items()):
        if k in alias and k != fkinds[0]:
            continue
        out.append(f'  | {k} => Some ({pairs(req)}, {pairs(opt)}, {"true" if wild else "false"})')
    out.append('  | _ => None end.')
    out.append('Definition gen_list (k : Z) : option Z :=')
    out.append('  match k with')
    for k, ek in sorted(T.lists.items()):
        out.append(f'  | {k} => Some {kk(ek)}')
    out.append('  | _ => None end.')
    out.append('Definition gen_registry (fk : Z) : list (Z * list Z * list Z) :=')
    out.append('  match fk with 0 => registry_reset | 1 => registry_transition | 2 => registry_reward | 3 => registry_observation | 4 => registry_visibility '
               '| 5 => registry_terminating | _ => [] end.')
    out.append(f'Definition gen_colors : list Z := {zl([tab[c] for c in _COL])}.')
    out.append(f'Definition gen_color_values : list Z := {zl([c.value for c in Color])}.')
    out.append(f'Definition gen_actions : list Z := {zl([tab[a] for a in _ACT])}.')
    out.append(f'Definition gen_objects : list Z := {zl([tab[n] for n in grid_object_registry.names()])}.')
    out.append(f'Definition gen_dists : list Z := {zl([tab["manhattan"], tab["euclidean"]])}.')
    out.append(f'Definition gen_tabs : tabs := mkTabs gen_dict gen_list gen_colors gen_actions gen_dists gen_objects gen_registry {k_env} {fkinds[0]} '
               + ' '.join(str(tab[s]) for s in LITERALS) + '.')
    intern = Interner()
    terms = []
    for fname, data, desc in envs.shipped_envs():
        ident = 'tree_' + fname.replace('.yaml', '').replace('.', '_')
        out.append(f'Definition {ident} : cfg := {cfg_term(data, intern)}.')
        terms.append(ident)
    out.append('Definition shipped_cfgs : list cfg := [' + '; '.join(terms) + '].')
    # what the harness reads out of the same files when it assembles the environments by hand (envs.desc_of_data): types, colours, actions, and the
    # registry indices of the five components -- cross-checked against the model's construction of the tree by the kernel (Lemmas/C17T.v)
    rows = []
    for (fname, data, desc), ident in zip(envs.shipped_envs(), terms):
        def idx(fk, name):
            return list(signatures.REGISTRIES[fk][1].keys()).index(name)
        comp_idx = [idx(0, data['reset_function']['name']), idx(1, 'chain'), idx(2, 'reduce_sum'), idx(3, data['observation_function']['name']),
                    idx(5, data['terminating_function']['name'])]
        kids = [[idx(1, t['name']) for t in data['transition_functions']], [idx(2, t['name']) for t in data['reward_functions']]]
        rows.append(f'({ident}, ({zl(desc["state_types"])}, {zl(desc["state_colors"])}, {zl(desc["actions"])}, {zl(desc["obs_types"])}, {zl(desc["obs_colors"])}, '
                    f'{zl(comp_idx)}, {zl(kids[0])}, {zl(kids[1])}))')
    out.append('Definition shipped_described : list (cfg * (list Z * list Z * list Z * list Z * list Z * list Z * list Z * list Z)) := [' + '; '.join(rows) + '].')
    if intern.fresh:
        out.append(f'(* strings of shipped files outside the table: {sorted(intern.fresh)} *)')
    return '\n'.join(out) + '\n'


if __name__ == '__main__':
    print(generate())
