"""T1 translator: the six component registries of the running code -> coq/Gen/Signatures.v.
For every registered name: the required and optional (non-protocol) parameter names, computed with inspect the way the
component `factory` functions compute them.  Strings are interned: id = index in the sorted list of all names and parameter
keys (the table is emitted as a comment and reused by the harness); anything else (unknown names / keys) gets ids >= 10000."""
import inspect

import vt.boot  # noqa: F401
from gym_gridverse.envs import (observation_functions, reset_functions, reward_functions, terminating_functions, transition_functions,
                                visibility_functions)

REGISTRIES = [
    ('reset', reset_functions.reset_function_registry, reset_functions.factory),
    ('transition', transition_functions.transition_function_registry, transition_functions.factory),
    ('reward', reward_functions.reward_function_registry, reward_functions.factory),
    ('observation', observation_functions.observation_function_registry, observation_functions.factory),
    ('visibility', visibility_functions.visibility_function_registry, visibility_functions.factory),
    ('terminating', terminating_functions.terminating_function_registry, terminating_functions.factory),
]


def signatures():
    """[(registry name, [(component name, required keys, optional keys)])] in registration order"""
    out = []
    for rname, reg, _ in REGISTRIES:
        rows = []
        for name in reg.keys():
            sig = inspect.signature(reg[name])
            params = reg.get_nonprotocol_parameters(sig)
            req = [p.name for p in params if p.default is inspect.Parameter.empty]
            opt = [p.name for p in params if p.default is not inspect.Parameter.empty]
            rows.append((name, req, opt))
        out.append((rname, rows))
    return out


def intern_table(sigs=None):
    sigs = sigs or signatures()
    names = set()
    for _, rows in sigs:
        for n, req, opt in rows:
            names.add(n)
            names.update(req)
            names.update(opt)
    # + every string the configuration layer knows (schema keys, actions, colours, registered object names, literals of factory.py)
    from vt import schematab
    names |= schematab.all_strings()
    return {s: i for i, s in enumerate(sorted(names))}


def zl(l):
    return '[' + '; '.join(str(v) for v in l) + ']'


def generate():
    sigs = signatures()
    tab = intern_table(sigs)
    out = ['(* GENERATED on every run by vt/signatures.py from the registries of /repo -- never edit, never commit.',
           '   interned strings: ' + ', '.join(f'{i}={s}' for s, i in sorted(tab.items(), key=lambda kv: kv[1])) + ' *)',
           'From Coq Require Import ZArith List.', 'Import ListNotations.', 'Open Scope Z_scope.', '',
           '(* per registry: (component name, required parameter keys, optional parameter keys), in registration order *)']
    for rname, rows in sigs:
        body = '; '.join(f'({tab[n]}, {zl([tab[k] for k in req])}, {zl([tab[k] for k in opt])})' for n, req, opt in rows)
        out.append(f'Definition registry_{rname} : list (Z * list Z * list Z) := [{body}].')
    out.append('Definition all_registries : list (list (Z * list Z * list Z)) := [' + '; '.join(f'registry_{r}' for r, _ in sigs) + '].')
    return '\n'.join(out) + '\n'


if __name__ == '__main__':
    print(generate())
