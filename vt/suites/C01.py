"""C01 -- closure and totality.  (a) T2 + oracle on every transition function / composition x all actions from states of a
declared space (edge-biased poses, unpaired telepods, held non-holdables, nested boxes); (b) exhaustive small grids;
(c) trajectories of all shipped configurations and random compositions through the real GridWorld (debug on and off):
space membership of every state and observation, float reward, bool flag, rejected actions; (d) the membership
predicates themselves against the model on conforming and near-miss inputs."""
import copy
import itertools as itt
import math
import sys

import vt.boot  # noqa: F401
import gym_gridverse.debugging as gvdebug
from gym_gridverse.envs.yaml.factory import factory_env_from_data
from gym_gridverse.geometry import Shape
from gym_gridverse.grid_object import Color, grid_object_registry
from gym_gridverse.spaces import ObservationSpace, StateSpace

from vt import access, comp, core, envs, gen, impl, tsuite, wire

TY = gen.TY


def space_for(types, shape):
    return StateSpace(Shape(*shape), [grid_object_registry[t] for t in types], list(Color))


def oracle_factory(types_of_case):
    def oracle(ctx, names, cs, act, kind, val, log, tape):
        case = tsuite.case_dict(names, cs, act)
        types = types_of_case.get((tuple(names), cs, act))
        if kind != 'ok':
            ctx.violation(f'transition raised {val} from a state of the state space', case)
            return
        if types is None:
            return
        g = val[0]
        sp = space_for(types, gen.shape_of(cs[0]))
        if not sp.contains(wire.mkstate(val)):
            ctx.violation('next state is not in the state space (shape / undeclared type / agent outside / held type)', dict(case, declared=types))
    return oracle


def conforming_cases(ctx, types_of_case):
    r = ctx.rng
    n = 900 if ctx.tier == 'quick' else 9000
    all_types = gen.PLACEABLE
    for _ in range(n):
        k = r.randint(1, len(all_types))
        types = sorted(set(r.sample(all_types, k)) | {TY['Floor']})
        cs = gen.rand_state(r, types=types, hi=6, floor_bias=0.4)
        g, p, o, held = cs
        if held[0] not in types and held != gen.NONE:
            held = gen.NONE
        # unpaired / paired telepods under the agent now and then
        if TY['Telepod'] in types and r.random() < 0.3:
            g = gen.set_cell(g, p, (TY['Telepod'], 0, r.choice([1, 2]), None))
        cs = (g, p, o, held)
        names = tsuite.rand_names(r)
        act = r.randrange(8)
        types_of_case[(tuple(names), cs, act)] = types
        yield (names, cs, act, 'conforming-random')


def exhaustive_cases(ctx, types_of_case):
    r = ctx.rng
    if ctx.tier == 'quick':
        alphabet = [gen.FLOOR, gen.WALL, (TY['Key'], 0, 1, None)]
        shapes = [(1, 3), (2, 2)]
    else:
        alphabet = [gen.FLOOR, gen.WALL, (TY['Key'], 0, 1, None), (TY['Door'], 2, 1, None), (TY['Box'], 0, 0, (TY['Key'], 0, 1, None)),
                    (TY['MovingObstacle'], 0, 0, None)]
        shapes = [(1, 2), (1, 3), (2, 2)]
    types = sorted({c[0] for c in alphabet} | {TY['Key']})
    for (h, w) in shapes:
        for cells in itt.product(alphabet, repeat=h * w):
            g = tuple(tuple(cells[i * w + j] for j in range(w)) for i in range(h))
            for y in range(h):
                for x in range(w):
                    for o in range(4):
                        for act in range(8):
                            names = [r.randrange(7)] if r.random() < 0.7 else [r.randrange(7), r.randrange(7)]
                            cs = (g, (y, x), o, r.choice([gen.NONE, (TY['Key'], 0, 1, None)]))
                            types_of_case[(tuple(names), cs, act)] = types
                            yield (names, cs, act, 'exhaustive-small')


def trajectories(ctx):
    r = ctx.rng
    shipped = envs.shipped_envs()
    seeds = 3 if ctx.tier == 'quick' else 40
    steps = 40 if ctx.tier == 'quick' else 200
    jobs = []
    for name, data, desc in shipped:
        env = factory_env_from_data(copy.deepcopy(data))
        for _ in range(seeds):
            jobs.append((name, env, desc))
    for i in range(15 if ctx.tier == 'quick' else 150):
        desc = envs.rand_env(r)
        try:
            jobs.append((f'random-{i}', comp.build_env(desc), desc))
        except Exception:  # noqa: BLE001
            continue
    reqs, metas = [], []
    for label, env, desc in jobs:
        debug = r.random() < 0.5
        ops = [('reset', None)]
        for _ in range(r.randint(5, steps)):
            bad = r.random() < 0.04 and len(desc['actions']) < 8
            a = r.choice([x for x in range(8) if x not in desc['actions']]) if bad else r.choice(desc['actions'])
            ops.append(('step', a))
            ops.append(('state', None))
            if r.random() < 0.5:
                ops.append(('obs', None))
        outs, log, tape = envs.run_ops(env, desc, ops, debug, r.randrange(1 << 30))
        prev_state = None
        for (kind, arg), out in zip(ops, outs):
            case = {'env': label, 'op': kind, 'arg': arg, 'debug': debug}
            if kind == 'step':
                inside = arg in desc['actions']
                if not inside:
                    if out != ('err', 'ValueError'):
                        ctx.violation(f'action outside the action space was not rejected with ValueError: {out}', case)
                    rejected = True
                    continue
                rejected = False
                if out[0] != 'ok':
                    # a terminal / any state of the space must still step without raising
                    ctx.violation(f'step raised {out[1]}', case)
                    continue
                _, rwd, done = out[1]
                if not isinstance(rwd, float) or not math.isfinite(rwd):
                    ctx.violation(f'reward {rwd!r} is not a finite float', case)
                if type(done) is not bool:
                    ctx.violation(f'termination flag {done!r} is not a bool', case)
            elif kind == 'state' and out[0] == 'ok':
                st = wire.mkstate(out[1][1])
                if not env.state_space.contains(st):
                    ctx.violation('a reachable state is not in the declared state space', dict(case, state=gen.show_state(out[1][1])))
                if prev_state is not None and 'rejected' in dir() and rejected and out[1][1] != prev_state:
                    ctx.violation('a rejected action changed the state', case)
                prev_state = out[1][1]
            elif kind == 'obs' and out[0] == 'ok':
                if not env.observation_space.contains(_as_obs(out[1][1])):
                    ctx.violation('an observation is not in the declared observation space', case)
            elif out[0] != 'ok' and kind != 'step':
                ctx.violation(f'{kind} raised {out[1]}', case)
        ctx.count('trajectory of', label if not label.startswith('random') else 'random composition')
        ctx.case((label, tuple(ops), tuple(map(tuple, tape))), True, {'env': label, 'steps': sum(1 for k, _ in ops if k == 'step'), 'debug': debug})
        reqs.append(envs.env_request(desc, debug, ops, tape))
        metas.append((label, desc, ops, debug, outs, log))
    answers = ctx.model(reqs)
    if answers is None:
        return
    for (label, desc, ops, debug, outs, log), ans in zip(metas, answers):
        kind, val, mlog = envs.decode_env(desc, ans)
        if kind != 'ok' or not core.same(val, outs) or impl.norm_log(mlog) != impl.norm_log(log):
            first = next((i for i, (a, b) in enumerate(zip(val or [], outs)) if a != b), None) if kind == 'ok' else None
            ctx.disagreement('trajectory: implementation and model differ',
                             {'env': label, 'ops': ops[:2 * (first or 0) + 4], 'debug': debug, 'first_difference': first,
                              'impl_out': str(outs[first])[:500] if first is not None else None,
                              'model_out': str(val[first])[:500] if first is not None else None})


def functional_steps(ctx):
    """(e) functional_step / functional_observation from ARBITRARY states of the declared space (not only reachable ones):
    the agent on the grid edge facing outward, any held item, unpaired telepods, with every reward / termination component"""
    r = ctx.rng
    n = 250 if ctx.tier == 'quick' else 2500
    reqs, metas = [], []
    types = [TY[t] for t in ('Floor', 'Wall', 'Exit', 'Door', 'Key', 'MovingObstacle', 'Telepod', 'Beacon')]
    for _ in range(n):
        desc = envs.rand_env(r)
        if desc['reset']['name'] == 'memory':
            continue
        # one instance of EVERY reward component (their documented preconditions hold in the states generated below)
        parts = []
        for nme in comp.R_PARAMS:
            d = {'name': nme, 'params': [comp.rand_param(r) for _ in comp.R_PARAMS[nme]]}
            if nme in comp.R_HAS_TY:
                d['ty'] = TY['Exit'] if nme != 'pickndrop' else TY['Key']
            if nme in comp.R_HAS_D:
                d['d'] = r.choice(['manhattan', 'euclidean'])
            parts.append(d)
        r.shuffle(parts)
        desc['reward'] = {'name': 'reduce_sum', 'parts': parts}
        desc['actions'] = list(range(8))
        h, w = desc['reset']['shape']
        # a state of the space: exactly one Exit and a Beacon (the documented "unique object" preconditions), anything else anywhere
        g = gen.rand_grid(r, h, w, [t for t in types if t not in (TY['Exit'], TY['Beacon'])], [0, 1, 2, 3, 4], 0.5)
        cells = [(y, x) for y in range(h) for x in range(w)]
        if r.random() < 0.3:
            # boxes (with a key / floor / wall inside) are objects of the declared spaces too: observing or stepping must not touch their content
            desc['state_types'] = desc['state_types'] + [TY['Box']]
            desc['obs_types'] = desc['obs_types'] + [TY['Box']]
            for _ in range(r.randint(1, 3)):
                g = gen.set_cell(g, r.choice(cells), (TY['Box'], 0, 0, r.choice([(TY['Key'], 0, r.choice([1, 2, 4]), None), gen.FLOOR, gen.WALL])))
            ctx.count('functional_step', 'with boxes')
        e_pos, b_pos = r.sample(cells, 2)
        g = gen.set_cell(g, e_pos, (TY['Exit'], 0, r.choice([0, 1, 2]), None))
        g = gen.set_cell(g, b_pos, (TY['Beacon'], 0, r.choice([1, 2]), None))
        p, o = gen.rand_pose(r, h, w, edge_bias=0.8)
        held = r.choice([gen.NONE, (TY['Key'], 0, r.choice([1, 2, 4]), None), gen.WALL])
        aligned = w % 2 == 1 and r.random() < 0.4
        if aligned:
            # the view is exactly the grid: same shape, agent on the anchor cell facing FORWARD (nothing to crop, pad or rotate)
            p, o = (h - 1, w // 2), 0
            desc['obs'] = {'name': r.choice(['partially_occluded', 'raytracing', 'stochastic_raytracing', 'fully_transparent']), 'area': (-(h - 1), 0, -(w // 2), w // 2)}
        a = r.choice(desc['actions'] + [6, 6, 7])
        if not aligned and r.random() < 0.15:
            # the agent's pose AND the object it acts on change in the same step: on a telepod, facing a door / box / key, acting on it;
            # the partner telepod on an edge cell from which the same heading faces outward (the grid has no border walls)
            dirs = {0: (-1, 0), 1: (1, 0), 2: (0, -1), 3: (0, 1)}
            o = r.randrange(4)
            dy, dx = dirs[o]
            spots = [(y, x) for (y, x) in cells if 0 <= y + dy < h and 0 <= x + dx < w
                     and not {(y, x), (y + dy, x + dx)} & {e_pos, b_pos}]
            outs = [(y, x) for (y, x) in cells if not (0 <= y + dy < h and 0 <= x + dx < w) and (y, x) not in (e_pos, b_pos)]
            if spots and outs:
                p = r.choice(spots)
                front = (p[0] + dy, p[1] + dx)
                q = r.choice([c for c in outs if c not in (p, front)] or outs)
                if q not in (p, front):
                    col = r.choice([1, 2, 3])
                    g = tuple(tuple(gen.FLOOR if cell[0] == TY['Telepod'] else cell for cell in row) for row in g)
                    g = gen.set_cell(g, p, (TY['Telepod'], 0, col, None))
                    g = gen.set_cell(g, q, (TY['Telepod'], 0, col, None))
                    g = gen.set_cell(g, front, r.choice([(TY['Door'], r.randrange(3), r.choice([1, 2, 4]), None), (TY['Door'], 1, col, None),
                                                         (TY['Key'], 0, col, None)]))
                    extra = [0, 1, 4, 5, 2, 6]
                    r.shuffle(extra)
                    desc['trans'] = [t for t in extra if t not in (6,)][:r.randint(2, 5)] + [6]
                    if 4 not in desc['trans']:
                        desc['trans'].insert(0, 4)
                    a = r.choice([6, 6, 6, 7, 0])
                    ctx.count('functional_step', 'directed: teleported while acting')
        cs = (g, p, o, held)
        try:
            env = comp.build_env(desc)
        except Exception:  # noqa: BLE001
            continue
        debug = r.random() < 0.5
        gvdebug.reset_gv_debug(debug)
        st = wire.mkstate(cs)
        if aligned or r.random() < 0.3:
            # observe first: an observation must lie in the observation space and leave the state where it was -- in the state space
            with impl.Journal(r.randrange(1 << 30)) as j0:
                access.set_rng(env, j0.own)
                try:
                    ob = env.functional_observation(st)
                    if not env.observation_space.contains(ob):
                        ctx.violation('functional_observation: observation outside the observation space', {'env': desc, 'state': gen.show_state(cs), 'wire_state': cs})
                except Exception as ex:  # noqa: BLE001
                    if not (desc['obs']['name'] == 'partially_occluded' and desc['obs']['area'][1] != 0):
                        ctx.violation(f'functional_observation raised {type(ex).__name__} from a state of the state space', {'env': desc, 'state': gen.show_state(cs), 'wire_state': cs})
            if not env.state_space.contains(st) or wire.cstate(st) != cs:
                ctx.violation('observing a state took it out of the state space / changed it', {'env': desc, 'state': gen.show_state(cs), 'after': gen.show_state(wire.cstate(st)), 'wire_state': cs})
                st = wire.mkstate(cs)
        with impl.Journal(r.randrange(1 << 30)) as j:
            access.set_rng(env, j.own)
            try:
                nxt, rwd, done = env.functional_step(st, envs.ACTS[a])
                out = ('ok', (wire.cstate(nxt), rwd, done))
            except Exception as ex:  # noqa: BLE001
                out = ('err', wire.EXN_NAMES.get(wire.exn_code(ex), type(ex).__name__))
        gvdebug.reset_gv_debug(None)
        case = {'env': desc, 'state': gen.show_state(cs), 'action': envs.ACTS[a].name, 'debug': debug, 'wire_state': cs}
        if out[0] != 'ok':
            ctx.violation(f'functional_step raised {out[1]} from a state of the state space', case)
        else:
            nxt, rwd, done = out[1]
            if not env.state_space.contains(wire.mkstate(nxt)):
                ctx.violation('functional_step: next state outside the state space', case)
            if not isinstance(rwd, float) or not math.isfinite(rwd) or type(done) is not bool:
                ctx.violation(f'functional_step: reward {rwd!r} / flag {done!r} ill-typed', case)
        ctx.count('functional_step', out[0] if out[0] == 'ok' else out[1])
        ctx.case(('fstep', repr(desc), cs, a, debug), True, None)
        reqs.append([12, *comp.enc_env(desc), 1 if debug else 0, *wire.estate(cs), a, *wire.etape(j.tape)])
        metas.append((desc, cs, a, debug, out, list(j.log)))
    answers = ctx.model(reqs)
    if answers is None:
        return
    for (desc, cs, a, debug, out, log), ans in zip(metas, answers):
        R = wire.Reader(ans)

        def dec():
            s2 = R.state()
            v = comp.read_rv(R)
            return (s2, comp.eval_rv(desc['reward'], v), bool(R.z()))
        kind, val, mlog = R.outcome(dec)
        if not core.same((kind, val), out) or impl.norm_log(mlog) != impl.norm_log(log):
            ctx.disagreement('functional_step: implementation and model differ',
                             {'env': desc, 'state': gen.show_state(cs), 'action': a, 'debug': debug, 'impl': str(out)[:500], 'model': str((kind, val))[:500]})


def _as_obs(co):
    from gym_gridverse.observation import Observation
    s = wire.mkstate(co)
    return Observation(s.grid, s.agent)


def exercise_space(sp, is_state):
    """use the read-only interface of a space: every public property, and the representations built on it (they query the space)"""
    for name in dir(type(sp)):
        if not name.startswith('_') and isinstance(getattr(type(sp), name, None), property):
            try:
                getattr(sp, name)
            except Exception:  # noqa: BLE001
                pass
    from gym_gridverse.representations.observation_representations import make_observation_representation
    from gym_gridverse.representations.state_representations import make_state_representation
    for kind in ('default', 'no-overlap', 'compact'):
        try:
            (make_state_representation if is_state else make_observation_representation)(kind, sp)
        except Exception:  # noqa: BLE001
            pass


def membership(ctx):
    """the predicates themselves: conforming inputs and near misses, real contains vs model contains; the verdict does not depend on
    whether the space's read-only interface (properties, representations built on it) has been used in between"""
    r = ctx.rng
    n = 300 if ctx.tier == 'quick' else 3000
    reqs, metas = [], []
    lst = lambda l: [len(l), *l]
    for _ in range(n):
        types = sorted(set(r.sample(gen.PLACEABLE, r.randint(1, len(gen.PLACEABLE)))))
        colors = sorted(set(r.sample([0, 1, 2, 3, 4], r.randint(1, 5))))
        cs = gen.rand_state(r, types=types if r.random() < 0.8 else None, colors=colors if r.random() < 0.8 else None, hi=5)
        h, w = gen.shape_of(cs[0])
        g, p, o, held = cs
        k = r.random()
        if k < 0.15:
            h += r.choice([-1, 1])
        elif k < 0.3:
            p = (p[0] + r.choice([-h, h, 0]), p[1] + r.choice([-w, w, 0]))
        if 0.3 <= k < 0.42:
            # a cell holding the "no object" placeholder / a Hidden cell: only allowed where the space declares that type
            gh, gw = gen.shape_of(g)
            g = gen.set_cell(g, (r.randrange(gh), r.randrange(gw)), r.choice([gen.NONE, gen.HIDDEN]))
        cs = (g, p, o, held)
        sp = StateSpace(Shape(max(h, 1), w), [grid_object_registry[t] for t in types], [Color(c) for c in colors])
        got = bool(sp.contains(wire.mkstate(cs)))
        if r.random() < 0.5:
            exercise_space(sp, True)
            again = bool(sp.contains(wire.mkstate(cs)))
            if again != got:
                ctx.violation(f'StateSpace.contains says {got}, and {again} after the read-only interface of the space was used',
                              {'state': gen.show_state(cs), 'types': types, 'colors': colors, 'wire_state': cs})
            got = again
        ctx.count('state membership', got)
        ctx.case(('ss', tuple(types), cs, h), True, None)
        reqs.append([11, 0, max(h, 1), w, *lst(types), *lst(colors), *wire.estate(cs)])
        metas.append(('state', got, cs, types))
        if w % 2 == 1:
            osp = ObservationSpace(Shape(max(h, 1), w), [grid_object_registry[t] for t in types], [Color(c) for c in colors])
            # an "observation": hide some cells
            g2 = tuple(tuple(gen.HIDDEN if r.random() < 0.3 else c for c in row) for row in g)
            co = (g2, p, 0, held)
            got = bool(osp.contains(_as_obs(co)))
            if r.random() < 0.5:
                exercise_space(osp, False)
                again = bool(osp.contains(_as_obs(co)))
                if again != got:
                    ctx.violation(f'ObservationSpace.contains says {got}, and {again} after the read-only interface of the space was used',
                                  {'observation': gen.show_state(co), 'types': types, 'colors': colors})
                got = again
            ctx.count('observation membership', got)
            ctx.case(('os', tuple(types), tuple(colors), co, h), True, None)
            reqs.append([11, 1, max(h, 1), w, *lst(types), *lst(colors), *wire.estate(co)])
            metas.append(('observation', got, co, types))
    answers = ctx.model(reqs)
    if answers is None:
        return
    for (what, got, cs, types), ans in zip(metas, answers):
        if ans != [1 if got else 0]:
            ctx.disagreement(f'{what} space membership: implementation and model differ',
                             {'what': what, 'state': gen.show_state(cs), 'types': types, 'impl': got, 'model': ans})


def run(ctx):
    ctx.rule = ('(a) corpus + random states of random declared spaces (Floor declared, box contents declared) x 7 functions and compositions x 8 actions; '
                '(b) exhaustive: all poses x actions on all grids up to 1x3/2x2 over a 3-object alphabet (thorough: 6 objects); (c) trajectories of all '
                '21 shipped configurations and random compositions, debug on/off, with out-of-space actions mixed in; (d) membership predicates on '
                'conforming and near-miss inputs; non-trivial = the step changed the state or a trajectory/membership case')
    types_of_case = {}
    tsuite.run_cases(ctx, itt.chain(tsuite.corpus(), conforming_cases(ctx, types_of_case), tsuite.wrap_cases(ctx, 300 if ctx.tier == 'quick' else 3000),
                                    exhaustive_cases(ctx, types_of_case)),
                     oracle_factory(types_of_case))
    trajectories(ctx)
    functional_steps(ctx)
    membership(ctx)
    # 'actions outside the action space are rejected with ValueError and change NOTHING' -- state, memoised observation, random stream
    from vt.suites import C04
    C04.rejected_actions(ctx)


def replay(ctx, case):
    if 'wire_state' not in case:
        return run(ctx)
    names, cs, act = tsuite.from_case(case)
    t = {}
    if 'declared' in case:
        t[(tuple(names), cs, act)] = case['declared']
    tsuite.run_cases(ctx, [(names, cs, act, 'replay')], oracle_factory(t))


if __name__ == '__main__':
    sys.exit(core.main('C01', run, replay))
