"""C02 -- seeded environments are reproducible and isolated from every global RNG.
Theorems: Props/C02.v (routing: no global draw for any built-in component / environment / layer; interleaving independence; set-order
independence; debug irrelevance).  On the code:
(a) routing: every registered reset / transition / observation function called WITH a generator, on inputs that make it draw --
    nothing may be drawn from the library-level generator (recording proxy), numpy's legacy global state and python's `random`
    state must be unchanged; the draw log is compared with the model's;
(b) seeded GridWorlds (real numpy generators): same configuration + same seed => identical transcripts, with the operations of the
    two copies interleaved with a third environment and with deliberate disturbance of every global generator;
(c) other processes: the same scripted episodes under different PYTHONHASHSEED values and with the debug flag on / off give
    byte-identical transcripts (monitor: the model has no hash seed -- it proves there is nothing for one to influence)."""
import copy
import os
import random as pyrandom
import subprocess
import sys

import numpy as np

import vt.boot  # noqa: F401
import gym_gridverse.debugging as gvdebug
import gym_gridverse.rng as gvrng
from gym_gridverse.envs import transition_functions as tf
from gym_gridverse.envs.yaml.factory import factory_env_from_data

from vt import access, comp, core, envs, gen, impl, osuite, tsuite, wire

T = gen.TY


def report(ctx, j, what, case):
    gd = j.global_draws()
    if gd:
        ctx.violation(f'{what}: called with a generator, it drew from the library-level generator: {gd[:3]}', case)
    for t in j.touched:
        ctx.violation(f'{what}: touched {t}', case)


def routing(ctx):
    r = ctx.rng
    n = 250 if ctx.tier == 'quick' else 2500
    reqs, metas = [], []
    # transition functions: states on which each of them draws (several same-coloured telepods under the agent, obstacles with free cells)
    for _ in range(n):
        cs = gen.rand_state(r, hi=6, floor_bias=0.55)
        g, p, o, held = cs
        h, w = gen.shape_of(g)
        if r.random() < 0.5:
            col = r.choice([1, 2])
            g = gen.set_cell(g, p, (T['Telepod'], 0, col, None))
            for _k in range(r.randint(1, 4)):
                g = gen.set_cell(g, (r.randrange(h), r.randrange(w)), (T['Telepod'], 0, col, None))
            g = gen.set_cell(g, p, (T['Telepod'], 0, col, None))
        for _k in range(r.randint(0, 3)):
            g = gen.set_cell(g, (r.randrange(h), r.randrange(w)), (T['MovingObstacle'], 0, 0, None)) if (r.randrange(h), r.randrange(w)) != p else g
        cs = (g, p, o, held)
        names = r.choice([[3], [6], [6], [3, 6], tsuite.rand_names(r)])
        act = r.randrange(8)
        s = wire.mkstate(cs)
        with impl.Journal(r.randrange(1 << 30)) as j:
            try:
                for nm in names:
                    tf.transition_function_registry[impl.TNAMES[nm]](s, impl.ACTS[act], rng=j.own)
                kind, val = 'ok', wire.cstate(s)
            except Exception as e:  # noqa: BLE001
                kind, val = 'err', wire.EXN_NAMES.get(wire.exn_code(e), type(e).__name__)
        case = tsuite.case_dict(names, cs, act)
        report(ctx, j, 'transition ' + '+'.join(impl.TNAMES[x] for x in names), case)
        ctx.count('routing', 'transition')
        ctx.count('draws per call', min(len(j.log), 5))
        ctx.case(('tr', tuple(names), cs, act), len(j.log) > 0, case if len(j.log) > 0 and len(ctx.samples) < 2 else None)
        reqs.append(impl.transition_request(names, True, act, cs, list(j.tape)))
        metas.append(('transition', case, (kind, val), list(j.log)))
    answers = ctx.model(reqs)
    if answers is not None:
        for (what, case, got, log), ans in zip(metas, answers):
            mk, mv, mlog = impl.decode_transition(ans)
            if (mk, mv) != got or impl.norm_log(mlog) != impl.norm_log(log):
                ctx.disagreement('routing: implementation and model differ (result or WHICH generator each draw consumed)', dict(case, impl_log=log, model_log=mlog))
    # reset functions with a generator, every random flag
    rs = []
    for _ in range(60 if ctx.tier == 'quick' else 600):
        h, w = r.randint(4, 9), r.randint(4, 9)
        rs.append(r.choice([
            {'name': 'empty', 'shape': (h, w), 'random_agent': r.random() < 0.7, 'random_exit': r.random() < 0.7},
            {'name': 'dynamic_obstacles', 'shape': (h, w), 'num_obstacles': r.randint(0, 3), 'random_agent': r.random() < 0.7},
            {'name': 'keydoor', 'shape': (h, max(w, 6))},
            {'name': 'teleport', 'shape': (h, w)},
            {'name': 'crossing', 'shape': (r.choice([5, 7, 9]), r.choice([5, 7, 9])), 'num_rivers': r.randint(1, 2), 'object_type': T['Wall']},
            {'name': 'rooms', 'shape': (r.choice([7, 9]), r.choice([7, 9])), 'layout': (2, 2)},
            {'name': 'memory', 'shape': (r.choice([5, 6, 7]), r.choice([5, 7])), 'colors': r.sample([1, 2, 3, 4], r.randint(2, 4))},
            {'name': 'memory_rooms', 'shape': (7, 7), 'layout': (2, 2), 'colors': r.sample([1, 2, 3, 4], r.randint(2, 4)), 'num_beacons': 1, 'num_exits': 2},
        ]))
    rreqs, rmetas = [], []
    for d in rs:
        f = comp.build_reset(d)
        with impl.Journal(r.randrange(1 << 30)) as j:
            try:
                s = f(rng=j.own)
                got = ('ok', wire.cstate(s))
            except Exception as e:  # noqa: BLE001
                got = ('err', wire.EXN_NAMES.get(wire.exn_code(e), type(e).__name__))
        report(ctx, j, f'reset {d["name"]}', {'reset': d})
        ctx.count('routing', 'reset ' + d['name'])
        ctx.case(('reset', repr(d), tuple(map(tuple, j.tape))), len(j.log) > 0, None)
        rreqs.append([8, *comp.enc_reset(d), 1, *wire.etape(list(j.tape))])
        rmetas.append((d, got, list(j.log)))
    answers = ctx.model(rreqs)
    if answers is not None:
        for (d, got, log), ans in zip(rmetas, answers):
            R = wire.Reader(ans)
            kind, val, mlog = R.outcome(R.state)
            if (kind, val) != got or impl.norm_log(mlog) != impl.norm_log(log):
                ctx.disagreement('routing (reset): implementation and model differ (result or which generator each draw consumed)', {'reset': d, 'impl_log': log, 'model_log': mlog})
    # observation functions with a generator
    for _ in range(80 if ctx.tier == 'quick' else 800):
        cs = osuite.tagged_state(r, 2, 7)
        name = r.choice(['stochastic_raytracing', 'stochastic_raytracing', 'raytracing', 'partially_occluded', 'fully_transparent'])
        hh, half = r.randint(1, 5), r.randint(0, 3)
        area = (-(hh - 1), 0, -half, half)
        f = comp.build_obs({'name': name, 'area': area})
        s = wire.mkstate(cs)
        with impl.Journal(r.randrange(1 << 30)) as j:
            try:
                f(s, rng=j.own)
            except Exception:  # noqa: BLE001
                pass
        report(ctx, j, f'observation {name}', {'function': name, 'area': area, 'state': gen.show_state(cs)})
        ctx.count('routing', 'observation ' + name)
        ctx.case(('obs', name, area, cs), len(j.log) > 0, None)


def disturb(r):
    """everything a seeded environment must be deaf to"""
    k = r.randrange(5)
    if k == 0:
        np.random.seed(r.randrange(1 << 30))
        np.random.random(3)
    elif k == 1:
        pyrandom.seed(r.randrange(1 << 30))
        pyrandom.random()
    elif k == 2:
        gvrng.reset_gv_rng(r.randrange(1 << 30))
    elif k == 3:
        gvrng.get_gv_rng().random(5)
    else:
        comp.build_reset({'name': 'empty', 'shape': (5, 5), 'random_agent': True, 'random_exit': True})()     # an UNseeded call


def transcript_ops(env, ops):
    out = []
    for kind, arg in ops:
        try:
            if kind == 'reset':
                env.reset()
                out.append('reset')
            elif kind == 'step':
                rwd, done = env.step(envs.ACTS[arg])
                out.append((float(rwd).hex(), bool(done)))
            elif kind == 'state':
                out.append(wire.cstate(env.state))
            else:
                out.append(wire.cstate(env.observation))
        except Exception as e:  # noqa: BLE001
            out.append(type(e).__name__)
    return out


def seeded(ctx):
    r = ctx.rng
    per = 2 if ctx.tier == 'quick' else 10
    length = 30 if ctx.tier == 'quick' else 100
    jobs = [(name, data, desc) for name, data, desc in envs.shipped_envs()]
    rand_descs = [envs.rand_env(r) for _ in range(12 if ctx.tier == 'quick' else 120)]
    # deterministic layout + stochastic observation: the state after reset is the same under every seed, the observation is not
    memo_descs = []
    for _ in range(6 if ctx.tier == 'quick' else 40):
        d = envs.rand_env(r)
        d['reset'] = {'name': 'empty', 'shape': (r.randint(5, 7), r.randint(5, 7)), 'random_agent': False, 'random_exit': False}
        d['obs'] = {'name': 'stochastic_raytracing', 'area': (-r.randint(3, 5), 0, -2, 2)}
        d['reward'] = {'name': 'reduce_sum', 'parts': [{'name': 'living_reward', 'params': [-0.05]}]}
        d['actions'] = list(range(8))
        memo_descs.append(d)
    # shortest-path shaping on layouts with walkable cells cut off from the exit (behind the locked door): the distance table is
    # recomputed whenever the other environment's layouts have pushed it out of the function's cache
    sp_descs = []
    for _ in range(3 if ctx.tier == 'quick' else 20):
        d = envs.rand_env(r)
        d['reset'] = {'name': 'keydoor', 'shape': (r.randint(5, 7), r.randint(6, 8))}
        d['reward'] = {'name': 'reduce_sum', 'parts': [{'name': 'getting_closer_shortest_path', 'params': [1.0, -1.0], 'ty': envs.TYN['Exit']}]}
        d['trans'] = [0, 1, 4, 2]
        d['actions'] = list(range(8))
        d['term'] = {'name': 'reach_exit'}
        sp_descs.append(d)
    # stochastic dynamics written as a chain of chains (the random function inside an inner chain): the generator must reach every level
    nest_descs = []
    for _ in range(8 if ctx.tier == 'quick' else 40):
        d = envs.rand_env(r)
        if r.random() < 0.6:
            d['reset'] = {'name': 'dynamic_obstacles', 'shape': (r.randint(5, 7), r.randint(5, 7)), 'num_obstacles': r.randint(2, 4), 'random_agent': r.random() < 0.5}
            d['trans'] = r.choice([[0, 1, 3], [3, 0, 1], [0, 3], [3, 1]])
        else:
            d['reset'] = {'name': 'teleport', 'shape': (r.randint(5, 7), r.randint(5, 7))}
            d['trans'] = r.choice([[0, 1, 6], [0, 6], [6, 0, 1]])
        n = len(d['trans'])
        stoch = next(i for i, t in enumerate(d['trans']) if t in (3, 6))
        d['trans_nesting'] = r.choice([[n], [n], [1, 2] if stoch >= 1 else [2, 1]]) if n == 3 else [n]
        d['actions'] = list(range(8))
        d['term'] = {'name': 'reach_exit'}
        d['reward'] = {'name': 'reduce_sum', 'parts': [{'name': 'living_reward', 'params': [-0.05]}]}
        nest_descs.append(d)
    for name, data, desc in (jobs + [(f'random-{i}', None, d) for i, d in enumerate(rand_descs)] + [(f'memo-{i}', None, d) for i, d in enumerate(memo_descs)]
                             + [(f'sp-{i}', None, d) for i, d in enumerate(sp_descs)] + [(f'nested-{i}', None, d) for i, d in enumerate(nest_descs)]):
        def build():
            return factory_env_from_data(copy.deepcopy(data)) if data is not None else comp.build_env(desc)
        try:
            a, b, c = build(), build(), build()
            if name.startswith('sp'):
                # the third environment is a DIFFERENT one of the same shape (its tables hold other values)
                c = comp.build_env(dict(desc, reset={'name': 'empty', 'shape': desc['reset']['shape'], 'random_agent': True, 'random_exit': True}))
        except Exception as e:  # noqa: BLE001
            ctx.count('random env rejected at construction', type(e).__name__)
            continue
        for it in range(per):
            seed = 0 if it == 0 else r.choice([1, r.randrange(1 << 30)])      # 0 is a seed like any other
            ops = envs.rand_ops(r, desc, r.randint(5, length))
            ops = [op for op in ops if not (op[0] == 'step' and op[1] not in desc['actions'])]
            ops = ops[next(i for i, op in enumerate(ops) if op[0] == 'reset'):]        # episodes start with reset (b is not a fresh object)
            if name.startswith('memo') or r.random() < 0.3:
                ops = [('reset', None), ('obs', None)] + ops
            # A: plain.  B: the same operations, interleaved with a third environment and with disturbance of every global generator,
            #    under the opposite debug flag
            dbg = r.random() < 0.5
            gvdebug.reset_gv_debug(dbg)
            a.set_seed(seed)
            access.forget(a)
            np0, py0 = impl._np_legacy_state(), pyrandom.getstate()
            gv_before = gvrng.get_gv_rng().bit_generator.state
            ta = transcript_ops(a, ops)
            if impl._np_legacy_state() != np0 or pyrandom.getstate() != py0 or gvrng.get_gv_rng().bit_generator.state != gv_before:
                ctx.violation(f'{name}: a seeded environment changed a global generator state', {'env': name, 'seed': seed, 'ops': ops})
            gvdebug.reset_gv_debug(not dbg)
            # b has a past: an earlier episode under another seed, observation requested -- none of it may leak through set_seed
            b.set_seed(r.randrange(1 << 30))
            transcript_ops(b, [('reset', None), ('obs', None)] + [x for _ in range(r.choice([0, 0, 1, 3])) for x in (('step', r.choice(desc['actions'])), ('obs', None))])
            b.set_seed(seed)
            # giving an environment a generator of its own -- from a seed or, with None, from fresh entropy -- touches no global generator
            np1, py1, gv1 = impl._np_legacy_state(), pyrandom.getstate(), gvrng.get_gv_rng().bit_generator.state
            c.set_seed(None)
            c.set_seed(r.randrange(1 << 30))
            if impl._np_legacy_state() != np1 or pyrandom.getstate() != py1 or gvrng.get_gv_rng().bit_generator.state != gv1:
                ctx.violation(f'{name}: set_seed (None, then an integer) changed a global generator state', {'env': name})
            access.forget(c)
            tb = []
            for op in ops:
                if r.random() < 0.4:
                    disturb(r)
                if r.random() < 0.4:
                    transcript_ops(c, [('reset', None)] + [('step', r.choice(desc['actions'])) for _ in range(r.randint(0, 3))] + [('obs', None)])
                if name.startswith('sp') and r.random() < 0.5:
                    transcript_ops(c, [x for _ in range(12) for x in (('reset', None), ('step', r.choice(desc['actions'])))])
                tb.extend(transcript_ops(b, [op]))
            gvdebug.reset_gv_debug(None)
            ctx.count('seeded pair', name if data is not None else 'random')
            ctx.case(('pair', name, seed, tuple(ops)), True, {'env': name, 'seed': seed, 'ops': len(ops)} if len(ctx.samples) < 4 else None)
            errs_a = [x for x in ta if isinstance(x, str) and x != 'reset']
            if ta != tb and not errs_a:
                k = next(i for i, (x, y) in enumerate(zip(ta, tb)) if x != y)
                ctx.violation(f'{name}: two environments with the same configuration and seed diverge at operation {k} ({ops[k]}) when one of them is interleaved with '
                              f'another environment / global RNG disturbance / run with the debug flag {"off" if dbg else "on"}',
                              {'env': name, 'seed': seed, 'ops': ops, 'first_difference': k, 'plain': str(ta[k])[:300], 'disturbed': str(tb[k])[:300]})


def processes(ctx):
    seeds = ['0', '1', '12345'] if ctx.tier == 'quick' else [str(s) for s in (0, 1, 2, 3, 5, 8, 13, 99, 12345, 4242424242)]
    nsteps = '25' if ctx.tier == 'quick' else '120'
    procs = []
    for hs in seeds:
        for debug in ('1', '0'):
            env = dict(os.environ, PYTHONHASHSEED=hs, PYTHONPATH=core.VERIF)
            procs.append((hs, debug, subprocess.Popen(['/venv/bin/python', '-m', 'vt.c02worker', debug, nsteps], cwd=core.VERIF, env=env,
                                                      stdout=subprocess.PIPE, stderr=subprocess.PIPE, text=True)))
    outs = {}
    for hs, debug, p in procs:
        o, e = p.communicate(timeout=1800)
        if p.returncode != 0:
            ctx.disagreement('C02 worker process failed', {'hashseed': hs, 'debug': debug, 'stderr': e[-1500:]})
            continue
        outs[(hs, debug)] = o.strip().splitlines()
    ref_key = next(iter(outs), None)
    if ref_key is None:
        return
    ref = outs[ref_key]
    ctx.notes['processes'] = len(outs)
    ctx.notes['transcripts_per_process'] = len(ref)
    for key, lines in outs.items():
        ctx.case(('proc', key), True, {'PYTHONHASHSEED': key[0], 'debug': key[1], 'transcripts': len(lines)} if len(ctx.samples) < 6 else None)
        ctx.count('process', f'hashseed={key[0]} debug={key[1]}')
        if lines != ref:
            diff = [(x, y) for x, y in zip(ref, lines) if x != y][:3]
            ctx.violation(f'transcripts differ between processes: PYTHONHASHSEED={ref_key[0]} debug={ref_key[1]} vs PYTHONHASHSEED={key[0]} debug={key[1]}: {diff}',
                          {'reference': ref_key, 'other': key, 'differences': diff})


def run(ctx):
    ctx.rule = ('(a) every registered transition / reset / observation function called with a generator on inputs that make it draw (3+ same-coloured '
                'telepods, obstacles, random flags, stochastic view): no draw on the library-level proxy, numpy legacy / python random states unchanged, draw '
                'log vs model; (b) pairs of equally seeded GridWorlds (21 shipped + random compositions), one of them interleaved with a third environment and '
                'with disturbance of every global generator, opposite debug flags; (c) worker processes under several PYTHONHASHSEED values x debug on/off; '
                'non-trivial = a call that drew randomness / a pair / a process')
    routing(ctx)
    seeded(ctx)
    processes(ctx)


if __name__ == '__main__':
    sys.exit(core.main('C02', run, None))
