"""C03 -- the functional interface is pure, alias-free and history-independent.   LEVEL: other (proved frame lemma + runtime monitors).
The hypotheses of Props/C03.v's frame theorem are facts about CPython objects; they are OBSERVED here on the real code:
  purity      -- functional_step / functional_observation / reward / termination / observation functions leave every argument
                 structurally unchanged (deep snapshot incl. box contents, held item, transform);
  alias-free  -- next_state shares no mutable object with state (grid, row lists, grid objects with instance attributes, agent,
                 transform), observations do not share containers with the state; mutating either afterwards does not affect the other;
  history     -- repeating a deterministic question after any other calls (other environments, other states, hashing, in-place edits of
                 OTHER objects) gives an equal answer; equal states hash alike whatever their history; fast_copy(s) == s, same hash;
                 every answer is also compared with the (stateless) model."""
import copy
import pickle
import sys

import vt.boot  # noqa: F401
import gym_gridverse.debugging as gvdebug
from gym_gridverse.envs.yaml.factory import factory_env_from_data
from gym_gridverse.geometry import Orientation, Position
from gym_gridverse.grid_object import Floor, Wall

from vt import access, comp, core, envs, gen, impl, osuite, tsuite, wire


def mutable_ids(state):
    """ids of every object of the state's graph through which a later mutation could be seen"""
    ids = {id(state.grid): 'grid', id(state.grid.objects): 'grid.objects', id(state.agent): 'agent', id(state.agent.transform): 'agent.transform'}
    for row in state.grid.objects:
        ids[id(row)] = 'row list'
        for o in row:
            if getattr(o, '__dict__', None):
                ids[id(o)] = type(o).__name__
                c = getattr(o, 'content', None)
                while c is not None:
                    if getattr(c, '__dict__', None):
                        ids[id(c)] = 'content ' + type(c).__name__
                    c = getattr(c, 'content', None)
    h = state.agent.grid_object
    if getattr(h, '__dict__', None):
        ids[id(h)] = 'held ' + type(h).__name__
    return ids


def scramble(state, r):
    """mutate a state in place in every way the API allows"""
    h, w = state.grid.shape.height, state.grid.shape.width
    state.agent.position = Position(r.randrange(h), r.randrange(w))
    state.agent.orientation = r.choice(list(Orientation))
    for _ in range(3):
        state.grid[r.randrange(h), r.randrange(w)] = r.choice([Floor, Wall])()
    for row in state.grid.objects:
        for o in row:
            if hasattr(o, 'state') and hasattr(type(o), 'Status') and r.random() < 0.7:
                o.state = r.choice(list(type(o).Status))
    state.grid.swap(Position(0, 0), Position(h - 1, w - 1))


def fresh_equal(s):
    return wire.mkstate(wire.cstate(s))


def safe_hash(ctx, s, what):
    """hash(s), or None after recording that a state cannot be hashed (states are hashable: they compare by value and are used as keys)"""
    try:
        return hash(s)
    except Exception as e:  # noqa: BLE001
        ctx.violation(f'{what}: hashing a state raised {type(e).__name__}: {e}', {'state': gen.show_state(wire.cstate(s))})
        return None


def check_step(ctx, env, desc, s, a, r, label, hist):
    """one functional step with all monitors; returns the next state or None"""
    before = wire.cstate(s)
    ids_before = mutable_ids(s)
    case = {'env': label, 'state': gen.show_state(before), 'action': envs.ACTS[a].name, 'wire_state': before, 'history': list(hist)}
    try:
        s2, rwd, done = env.functional_step(s, envs.ACTS[a])
    except Exception as e:  # noqa: BLE001
        if wire.cstate(s) != before:
            ctx.violation(f'functional_step raised {type(e).__name__} AND modified its input state', case)
        return None
    if wire.cstate(s) != before:
        ctx.violation('functional_step modified the state passed to it', case)
    shared = [what for i, what in mutable_ids(s2).items() if i in ids_before]
    if shared:
        ctx.violation(f'next_state shares mutable objects with state: {sorted(set(shared))}', case)
    # reward / termination are pure too
    b2 = wire.cstate(s2)
    for what, f in (('reward function', access.reward_function(env)), ('terminating function', access.termination_function(env))):
        v1 = f(s, envs.ACTS[a], s2)
        if wire.cstate(s) != before or wire.cstate(s2) != b2:
            ctx.violation(f'the {what} modified a state passed to it', case)
        v2 = f(fresh_equal(s), envs.ACTS[a], fresh_equal(s2))
        if not core.same(v1, v2):      # (up to the last bits: numpy-integer vs python-integer coordinates, see core.same)
            ctx.violation(f'the {what} answers differently on equal arguments ({v1!r} vs {v2!r}): it depends on history / identity', case)
        # ... also after the same question was asked about ANOTHER world of the same environment in between (A, B, A)
        other = _OTHER.get((id(env), what))
        if other is not None and other[3] != before:
            try:
                f(other[0], other[1], other[2])
                v3 = f(s, envs.ACTS[a], s2)
                if not core.same(v3, v1):
                    ctx.violation(f'the {what} answers differently ({v1!r}, then {v3!r}) after it was asked about another state in between: it depends on history',
                                  dict(case, asked_in_between=gen.show_state(other[3])))
            except Exception:  # noqa: BLE001  (a raising component is reported by the monitors above / by C12)
                pass
        if other is None or r.random() < 0.3:
            _OTHER[(id(env), what)] = (fresh_equal(s), envs.ACTS[a], fresh_equal(s2), before)
    return s2, rwd, done


_OTHER = {}


_IENV = {}


def interactive_env(shape, r):
    if shape not in _IENV:
        types = [gen.TY[n] for n in ('Floor', 'Wall', 'Exit', 'Door', 'Key', 'MovingObstacle', 'Box', 'Telepod', 'Beacon')]
        desc = {'state_types': types, 'state_colors': [0, 1, 2, 3, 4], 'actions': list(range(8)), 'obs_types': types, 'obs_colors': [0, 1, 2, 3, 4],
                'reset': {'name': 'empty', 'shape': shape}, 'trans': [0, 1, 4, 5, 2, 6, 3],
                'obs': {'name': 'partially_occluded', 'area': (-2, 0, -1, 1)},
                'reward': {'name': 'reduce_sum', 'parts': [{'name': 'living_reward', 'params': [-0.1]}, {'name': 'actuate_door', 'params': [0.5, -0.5]},
                                                            {'name': 'pickndrop', 'params': [0.3, -0.3], 'ty': gen.TY['Key']},
                                                            {'name': 'getting_closer_shortest_path', 'params': [0.7, -0.7], 'ty': gen.TY['Exit']}]},
                'term': {'name': 'reach_exit'}}
        _IENV[shape] = ('interactive', comp.build_env(desc), desc)
    return _IENV[shape]


def one_exit(cs, r):
    """exactly one Exit (the precondition of the shortest-path reward), never under the agent"""
    g, p, o, held = cs
    h, w = gen.shape_of(g)
    EX = gen.TY['Exit']
    g = tuple(tuple(gen.FLOOR if c[0] == EX else c for c in row) for row in g)
    cells = [(y, x) for y in range(h) for x in range(w) if (y, x) != p]
    if cells:
        g = gen.set_cell(g, r.choice(cells), (EX, 0, 0, None))
    return (g, p, o, held)


def door_on_the_way(r):
    """a wall across the world with ONE door in it (shut, or locked with the matching key in hand), the exit beyond, the agent in front of the door
    and facing it: whether the door is open decides every walking distance -- what is remembered about a layout must follow the door"""
    T = gen.TY
    h, w = r.choice([(3, 3), (3, 4), (4, 4), (2, 5), (4, 3)])
    col = r.choice(gen.COLORS[1:])
    x = r.randrange(1, w - 1)
    y = r.randrange(h)
    locked = r.random() < 0.5
    g = tuple(tuple((gen.WALL if yy != y else (T['Door'], 2 if locked else 1, col, None)) if xx == x else gen.FLOOR for xx in range(w)) for yy in range(h))
    side = r.choice([-1, 1])
    ex = [(yy, xx) for yy in range(h) for xx in range(w) if (xx - x) * side > 0]
    g = gen.set_cell(g, r.choice(ex), (T['Exit'], 0, 0, None))
    return (g, (y, x - side), 3 if side == 1 else 2, (T['Key'], 0, col, None) if locked else gen.NONE)


def histories(ctx):
    r = ctx.rng
    shipped = [(name, factory_env_from_data(copy.deepcopy(data)), desc) for name, data, desc in envs.shipped_envs()]
    others = [e for _, e, _ in shipped[:4]]
    n = 200 if ctx.tier == 'quick' else 2000
    reqs, metas, oreqs, ometas = [], [], [], []
    gvdebug.reset_gv_debug(True)
    try:
        for k in range(n):
            if r.random() < 0.5:
                label, env, desc = r.choice(shipped)
                env.set_seed(r.randrange(1 << 30))
                s = env.functional_reset()
            else:
                # a dense interactive world (doors are the objects mutated in place) under all seven dynamics, every type declared
                cs = one_exit(tsuite.interactive_world(r), r)
                if r.random() < 0.3:
                    cs = door_on_the_way(r)
                if gen.shape_of(cs[0]) == (3, 3) and r.random() < 0.6 and cs[0][2][1][0] not in (gen.TY['Wall'], gen.TY['Box'], gen.TY['Exit']) and not (cs[0][2][1][0] == gen.TY['Door'] and cs[0][2][1][1] != 0):
                    cs = (cs[0], (2, 1), 0, cs[3])          # aligned with the 3x3 view: on its anchor cell, facing FORWARD
                label, env, desc = interactive_env(gen.shape_of(cs[0]), r)
                s = wire.mkstate(cs)
            hist = []
            for _t in range(r.randint(2, 9)):
                ev = r.random()
                if r.random() < 0.5:
                    safe_hash(ctx, s, 'history')   # hashing a state must not change anything later
                    hist.append('hash')
                if ev < 0.1:
                    o = r.choice(others)                                      # other calls on other environments
                    o.set_seed(r.randrange(1 << 30))
                    o.reset()
                    o.step(r.choice(list(o.action_space.actions)))
                    o.observation
                    hist.append('other env')
                elif ev < 0.2:
                    t = pickle.loads(pickle.dumps(s))                         # in-place edits of OTHER (copied) objects
                    scramble(t, r)
                    hist.append('scramble a copy')
                a = r.choice(desc['actions']) if label != 'interactive' else r.randrange(8)
                a = r.choice([0, 0, 6, 6, 7, a])
                if label == 'interactive' and _t == 0 and r.random() < 0.5:
                    a = 6          # the first thing done in front of a door: ACTUATE
                if a not in desc['actions'] and r.random() < 0.7:
                    a = r.choice(desc['actions'])        # (sometimes kept: an action outside the action space either raises or obeys the same purity rules)
                # observation of the current state: pure, no shared containers, repeatable
                before = wire.cstate(s)
                case = {'env': label, 'state': gen.show_state(before), 'wire_state': before, 'history': list(hist)}
                ids = mutable_ids(s)
                try:
                    with impl.Journal(r.randrange(1 << 30)) as j:
                        saved = access.get_rng(env)
                        access.set_rng(env, j.own)
                        try:
                            ob = env.functional_observation(s)
                        finally:
                            access.set_rng(env, saved)
                    if wire.cstate(s) != before:
                        ctx.violation('functional_observation modified the state passed to it', case)
                    sh = [w for i, w in {id(ob.grid): 'grid', id(ob.grid.objects): 'grid.objects', id(ob.agent): 'agent', id(ob.agent.transform): 'transform',
                                         **{id(row): 'row list' for row in ob.grid.objects}}.items() if i in ids]
                    if sh:
                        ctx.violation(f'the observation shares mutable containers with the state: {sorted(set(sh))}', case)
                    oreqs.append([13, *comp.enc_env(desc), 1, *wire.estate(before), *wire.etape(list(j.tape))])
                    ometas.append((case, wire.cstate(ob), list(j.log)))
                    if not j.log:   # deterministic observation function: asking again (fresh equal state) gives an equal answer
                        ob2 = env.functional_observation(fresh_equal(s))
                        if wire.cstate(ob2) != wire.cstate(ob):
                            ctx.violation('a deterministic observation differs between a state with a history and a freshly built equal state', case)
                except Exception as e:  # noqa: BLE001
                    ctx.violation(f'functional_observation raised {type(e).__name__}', case)
                # equal states hash alike, whatever their history; copies equal their original
                f = fresh_equal(s)
                if s != f or safe_hash(ctx, s, 'history') != safe_hash(ctx, f, 'fresh equal state'):
                    ctx.violation('a state with a history and a freshly built equal state differ in == or hash', case)
                c = pickle.loads(pickle.dumps(s))
                if c != s or safe_hash(ctx, c, 'copy') != safe_hash(ctx, s, 'original'):
                    ctx.violation('a copied state does not equal / hash like its original', case)
                with impl.Journal(r.randrange(1 << 30)) as j:
                    saved = access.get_rng(env)
                    access.set_rng(env, j.own)
                    try:
                        res = check_step(ctx, env, desc, s, a, r, label, hist)
                    finally:
                        access.set_rng(env, saved)
                ctx.count('history event', 'step ' + envs.ACTS[a].name)
                ctx.case(('hist', label, before, a, len(hist)), True, {'env': label, 'action': envs.ACTS[a].name, 'history': list(hist)} if len(ctx.samples) < 4 else None)
                if res is None:
                    break
                s2, rwd, done = res
                # history independence against the stateless model: the step from this state's VALUE
                reqs.append([12, *comp.enc_env(desc), 1, *wire.estate(before), a, *wire.etape(list(j.tape))])
                metas.append((desc, case, a, wire.cstate(s2), rwd, done, list(j.log)))
                hist.append(envs.ACTS[a].name)
                s = s2
                if done:
                    break
    finally:
        gvdebug.reset_gv_debug(None)
    answers = ctx.model(reqs)
    if answers is not None:
        for (desc, case, a, nxt, rwd, done, log), ans in zip(metas, answers):
            R = wire.Reader(ans)

            def out():
                st = R.state()
                v = comp.read_rv(R)
                return st, comp.eval_rv(desc['reward'], v), bool(R.z())
            kind, val, mlog = R.outcome(out)
            if kind != 'ok' or not core.same(val, (nxt, rwd, done)) or impl.norm_log(mlog) != impl.norm_log(log):
                ctx.disagreement('a functional step after a history of other calls: implementation and (stateless) model differ', dict(case, action=envs.ACTS[a].name, model_kind=kind))
    answers = ctx.model(oreqs)
    if answers is not None:
        for (case, got, log), ans in zip(ometas, answers):
            R = wire.Reader(ans)
            kind, val, mlog = R.outcome(R.state)
            if kind != 'ok' or val != got or impl.norm_log(mlog) != impl.norm_log(log):
                ctx.disagreement('an observation after a history of other calls: implementation and (stateless) model differ', dict(case, model_kind=kind))


def _unused():
    pass


def aliasing_after_the_fact(ctx):
    """mutate the result, look at the input; mutate the input, look at the result"""
    r = ctx.rng
    for _ in range(120 if ctx.tier == 'quick' else 1200):
        cs = one_exit(tsuite.interactive_world(r), r)
        _, env, desc = interactive_env(gen.shape_of(cs[0]), r)
        s = wire.mkstate(cs)
        a = r.choice(desc['actions'])
        try:
            s2, _, _ = env.functional_step(s, envs.ACTS[a])
            ob = env.functional_observation(s)
        except Exception:  # noqa: BLE001
            continue
        v_s, v_s2, v_ob = wire.cstate(s), wire.cstate(s2), wire.cstate(ob)
        case = {'state': gen.show_state(cs), 'action': envs.ACTS[a].name, 'wire_state': cs}
        ctx.case(('alias', cs, a), True, None)
        ctx.count('aliasing probe', 'step+observation')
        which = r.randrange(3)
        scramble((s, s2, ob)[which] if which < 2 else s, r) if which < 2 else None
        if which == 2:
            # mutate the observation's grid and agent
            ob.agent.position = Position(0, 0)
            for y in range(ob.grid.shape.height):
                for x in range(ob.grid.shape.width):
                    ob.grid[y, x] = Wall()
        got = (wire.cstate(s), wire.cstate(s2), wire.cstate(ob))
        names = ('the input state', 'the next state', 'the observation')
        # (the property forbids sharing between a state and its NEXT state; an observation may show the state's own objects -- C05 states it
        #  does -- so in-place edits of a state's objects are not required to leave its observation alone; containers must not be shared)
        for i in range(2):
            if i != which and got[i] != (v_s, v_s2, v_ob)[i]:
                ctx.violation(f'mutating {names[which]} afterwards changed {names[i]}', case)


def obs_variant(area, variant):
    from gym_gridverse.envs import observation_functions as ofs, visibility_functions as vfs
    if variant is None:
        return comp.build_obs({'name': 'raytracing', 'area': area})
    return ofs.factory('from_visibility', area=comp.area_of(area), visibility_function=vfs.factory('raytracing', absolute_counts=variant[0], threshold=variant[1]))


def large_view_histories(ctx):
    """history-independence where hidden shared state would matter most: deterministic observations with LARGE views (hundreds of rays)
    are recorded, then the stochastic observation function and other view sizes are used on other states, then the same questions are
    asked again -- same answers.  (With 7x7 views a few extra or missing rays rarely change a mask; with 11x11 and 9x13 views they do.)"""
    import numpy as np
    r = ctx.rng
    views = [(-10, 0, -5, 5), (-8, 0, -6, 6), (-12, 0, -3, 3)]
    recorded = []
    for area in views:
        for _ in range(60 if ctx.tier == 'quick' else 300):
            h, w = r.randint(11, 15), r.randint(11, 15)
            g = tuple(tuple(gen.WALL if r.random() < 0.22 else gen.FLOOR for _ in range(w)) for _ in range(h))
            p, o = (r.randrange(h), r.randrange(w)), r.randrange(4)
            g = gen.set_cell(g, p, gen.FLOOR)
            cs = (g, p, o, gen.NONE)
            # the default ray-traced view (one lit ray suffices) and the library's other parameterisations of it (a fraction / a number of lit rays:
            # these depend on the whole multiset of rays, so anything that leaks into the fan shows)
            variant = r.choice([None, None, (False, 0.5), (False, 0.34), (True, 2), (True, 3)])
            f = obs_variant(area, variant)
            recorded.append((area, cs, wire.cstate(f(wire.mkstate(cs))), variant))
    # other activity: the stochastic variant with the same and other view sizes, on other states
    for area in views + [(-6, 0, -3, 3), (-4, 0, -2, 2)]:
        fs = comp.build_obs({'name': 'stochastic_raytracing', 'area': area})
        for _ in range(4):
            h, w = r.randint(11, 15), r.randint(11, 15)
            g = tuple(tuple(gen.WALL if r.random() < 0.22 else gen.FLOOR for _ in range(w)) for _ in range(h))
            p = (r.randrange(h), r.randrange(w))
            fs(wire.mkstate((gen.set_cell(g, p, gen.FLOOR), p, r.randrange(4), gen.NONE)), rng=np.random.default_rng(r.randrange(1 << 30)))
    for area, cs, before, variant in recorded:
        f = obs_variant(area, variant)
        ctx.case(('large-view-history', area, cs), True, None)
        ctx.count('large view asked again', f'{area[1] - area[0] + 1}x{area[3] - area[2] + 1}')
        if wire.cstate(f(wire.mkstate(cs))) != before:
            ctx.violation('functional_observation (raytracing) of the same state changed after the stochastic observation function was used on other states',
                          {'area': area, 'state': gen.show_state(cs), 'wire_state': cs})


def unrelated_registrations(ctx):
    """equality and hashing of a state are not affected by calls that have nothing to do with it: a state holding instances of a user class is
    copied, compared and hashed before and after ANOTHER user class -- which happens to carry the same class name (a second custom module,
    a notebook cell run twice) -- is defined"""
    import copy
    from gym_gridverse.agent import Agent
    from gym_gridverse.geometry import Orientation, Position
    from gym_gridverse.grid import Grid
    from gym_gridverse.grid_object import Color, Floor, GridObject, Wall, grid_object_registry as reg
    from gym_gridverse.state import State
    from gym_gridverse.utils.fast_copy import fast_copy
    body = {'state_index': 0, 'color': Color.NONE, 'blocks_movement': False, 'blocks_vision': False, 'holdable': True,
            'can_be_represented_in_state': classmethod(lambda cls: True), 'num_states': classmethod(lambda cls: 1), '__repr__': lambda self: 'VerifCoin()'}
    n0 = len(reg.data)
    try:
        CoinA = type('VerifCoin', (GridObject,), dict(body, __module__='verif_coins_a'))
        try:
            CoinA()
        except TypeError:
            # the way a user defines a grid-object class has changed (another required attribute): this probe knows the pinned way only
            ctx.count('unrelated registration', 'the probe\'s user class cannot be instantiated: skipped')
            return
        s = State(Grid([[Floor(), CoinA(), Wall()], [Floor(), Floor(), CoinA()]]), Agent(Position(1, 0), Orientation.F, CoinA()))
        c0 = copy.deepcopy(s)
        h0 = hash(s)
        CoinB = type('VerifCoin', (GridObject,), dict(body, __module__='verif_coins_b'))       # the unrelated call
        other = State(Grid([[CoinB(), Floor()]]), Agent(Position(0, 1), Orientation.F))
        hash(other)
        ctx.case(('unrelated-registration',), True, {'registered': reg.names()})
        try:
            c1 = copy.deepcopy(s)
            ok = (c1 == s and c0 == s and s == c0 and hash(c1) == hash(s) == h0 and hash(c0) == h0 and CoinA() != CoinB() and s.grid[0, 1] == CoinA())
            what = 'a copied state no longer equals / hashes like its original'
        except Exception as e:  # noqa: BLE001
            ok, what = False, f'comparing / hashing a state and its copies raises {type(e).__name__}: {e}'
        if not ok:
            ctx.violation(what + ' after an unrelated grid-object class of the same name was defined', {'history': 'define class VerifCoin; build, copy and hash a state holding its instances; define another class VerifCoin; copy, compare and hash again'})
    finally:
        del reg.data[n0:]
        for cls in [c for c in list(reg.data) if c.__name__ == 'VerifCoin']:
            reg.data.remove(cls)


def run(ctx):
    ctx.notes['explanation'] = ('Level `other`: Props/C03.v proves the frame theorem for copy-then-mutate over an abstract heap (and == iff equal hash keys); that the '
                                'CPython objects satisfy its hypotheses cannot be proved in Coq and is monitored here: arguments structurally unchanged, no shared '
                                'mutable ids between input and output, later mutations do not propagate, equal answers after arbitrary histories, equal hashes for '
                                'equal states, and agreement with the stateless model after every history.')
    ctx.rule = ('histories on the 21 shipped environments and on dense door/key/box worlds under the key-door dynamics: hashing, calls on other environments and '
                'in-place scrambling of copies interleaved with functional_observation / functional_step / reward / termination on ONE evolving state; '
                'id-graph disjointness, structural snapshots, fresh-equal-state comparisons, model comparison; after-the-fact mutation probes; reward / termination components asked about A, then B, then A again; worlds in which one door decides every walking distance; equality and hashing across the definition of an unrelated same-named grid-object class; non-trivial = every event')
    histories(ctx)
    aliasing_after_the_fact(ctx)
    large_view_histories(ctx)
    unrelated_registrations(ctx)


if __name__ == '__main__':
    sys.exit(core.main('C03', run, None, level='other'))
