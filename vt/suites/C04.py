"""C04 -- the stateful interface mirrors the functional one; observations are never stale.
T2 over operation sequences on the real GridWorld (shipped configurations through the YAML factory, random compositions
assembled from the registries) against the model machine `irun`: every output, every exception class, the draw log.
Oracle: the same sequence threaded by hand through functional_reset / functional_step / functional_observation on a
second environment with the same recorded randomness."""
import copy
import sys

import vt.boot  # noqa: F401
import gym_gridverse.debugging as gvdebug
from gym_gridverse.envs.yaml.factory import factory_env_from_data
from gym_gridverse.outer_env import OuterEnv
from gym_gridverse.representations.observation_representations import make_observation_representation
from gym_gridverse.representations.state_representations import make_state_representation

from vt import access, comp, core, envs, gen, impl, wire
from vt.rngproxy import ScriptedRng


def functional_oracle(ctx, env, desc, ops, outs, tape, label):
    """thread the states by hand through the functional interface, replaying the recorded answers"""
    rng = ScriptedRng(tape)
    access.set_rng(env, rng)
    state, memo = None, None
    case = {'env': label, 'ops': ops}
    for k, ((kind, arg), got) in enumerate(zip(ops, outs)):
        try:
            if kind == 'reset':
                state, memo = env.functional_reset(), None
                exp = ('ok', ('unit',))
            elif kind == 'step':
                if state is None:
                    raise RuntimeError
                nxt, rwd, done = env.functional_step(state, envs.ACTS[arg])
                state, memo = nxt, None
                exp = ('ok', ('step', rwd, done))
            elif kind == 'state':
                if state is None:
                    raise RuntimeError
                exp = ('ok', ('state', wire.cstate(state)))
            else:
                if state is None:
                    raise RuntimeError
                if memo is None:
                    memo = env.functional_observation(state)
                exp = ('ok', ('obs', wire.cstate(memo)))
        except Exception as e:  # noqa: BLE001
            exp = ('err', wire.EXN_NAMES.get(wire.exn_code(e), type(e).__name__))
        if not core.same(exp, got):
            ctx.violation(f'operation {k} ({kind}): stateful interface returned {str(got)[:200]}, functional threading gives {str(exp)[:200]}', case)
            return
    if rng.k != len(tape):
        ctx.violation('the stateful run consumed a different amount of randomness than the functional threading', case)


def outer_oracle(ctx, env, ops_done, label):
    """OuterEnv exposes exactly the representations of the inner state and observation"""
    import numpy as np
    if not env.state_space.can_be_represented:
        return
    outer = OuterEnv(env, state_representation=make_state_representation('default', env.state_space),
                     observation_representation=make_observation_representation('default', env.observation_space))
    try:
        s = outer.state
        o = outer.observation
    except Exception:
        return
    es = outer.state_representation.convert(env.state)
    eo = outer.observation_representation.convert(env.observation)
    if any(not np.array_equal(s[k], es[k]) for k in es) or any(not np.array_equal(o[k], eo[k]) for k in eo):
        ctx.violation('OuterEnv does not expose the representation of the inner state / observation', {'env': label})


def seeded_threading(ctx, shipped):
    """'with the same seed': a stateful run after set_seed(seed) equals threading states through the functional interface of a second
    copy of the environment after set_seed(seed) -- real numpy generators, seeds 0, 1 and random ones"""
    r = ctx.rng
    for name, data, desc in shipped[::3] if ctx.tier == 'quick' else shipped:
        for seed in (0, 1, r.randrange(1 << 30)):
            a = factory_env_from_data(copy.deepcopy(data))
            b = factory_env_from_data(copy.deepcopy(data))
            ops = envs.rand_ops(r, desc, r.randint(5, 25))
            ops = [op for op in ops if not (op[0] == 'step' and op[1] not in desc['actions'])]
            a.set_seed(seed)
            b.set_seed(seed)
            got = []
            for kind, arg in ops:
                try:
                    if kind == 'reset':
                        a.reset(); got.append(('unit',))
                    elif kind == 'step':
                        got.append(('step',) + tuple(a.step(envs.ACTS[arg])))
                    elif kind == 'state':
                        got.append(('state', wire.cstate(a.state)))
                    else:
                        got.append(('obs', wire.cstate(a.observation)))
                except Exception as e:  # noqa: BLE001
                    got.append(('err', type(e).__name__))
            state, memo, exp = None, None, []
            for kind, arg in ops:
                try:
                    if kind == 'reset':
                        state, memo = b.functional_reset(), None
                        exp.append(('unit',))
                    elif state is None:
                        exp.append(('err', 'RuntimeError'))
                    elif kind == 'step':
                        nxt, rwd, done = b.functional_step(state, envs.ACTS[arg])
                        state, memo = nxt, None
                        exp.append(('step', rwd, done))
                    elif kind == 'state':
                        exp.append(('state', wire.cstate(state)))
                    else:
                        if memo is None:
                            memo = b.functional_observation(state)
                        exp.append(('obs', wire.cstate(memo)))
                except Exception as e:  # noqa: BLE001
                    exp.append(('err', type(e).__name__))
            ctx.count('seeded threading', name)
            ctx.case(('seeded', name, seed, tuple(ops)), True, None)
            if not core.same(got, exp):
                k = next(i for i, (x, y) in enumerate(zip(got, exp)) if not core.same(x, y))
                ctx.violation(f'{name}, seed {seed}: the stateful trajectory differs from threading states through the functional interface with the same seed at operation {k} ({ops[k]})',
                              {'env': name, 'seed': seed, 'ops': ops, 'first_difference': k, 'stateful': str(got[k])[:300], 'functional': str(exp[k])[:300]})


def read_patterns(ctx):
    """the trajectory does not depend on WHEN observations are read: environments whose (user-written) reset function puts boxes with keys,
    doors and keys into a room, driven with the same seed and actions under different patterns of observation reads (never / every step /
    only while a box is still closed / twice at reset) -- same states, rewards and flags as threading through the functional interface"""
    import numpy as np
    from gym_gridverse.geometry import Position
    from gym_gridverse.grid_object import Box, Color, Door, Floor, Key
    r = ctx.rng
    for k in range(10 if ctx.tier == 'quick' else 100):
        desc = envs.rand_env(r)
        desc['reset'] = {'name': 'empty', 'shape': (r.randint(5, 7), r.randint(5, 7)), 'random_agent': True, 'random_exit': False}
        box_ty, door_ty, key_ty = gen.TY['Box'], gen.TY['Door'], gen.TY['Key']
        for key in ('state_types', 'obs_types'):
            desc[key] = sorted(set(desc[key]) | {box_ty, door_ty, key_ty})
        desc['trans'] = [0, 1, 5, 4, 2]          # move, turn, actuate_box, actuate_door, pickndrop
        desc['actions'] = list(range(8))
        desc['obs'] = {'name': r.choice(['fully_transparent', 'partially_occluded', 'raytracing']), 'area': (-r.randint(2, 4), 0, -2, 2)}
        desc['reward'] = {'name': 'reduce_sum', 'parts': [{'name': 'living_reward', 'params': [-0.05]}]}
        desc['term'] = {'name': 'reach_exit'}
        base = comp.build_reset(desc['reset'])

        def reset(*, rng=None, base=base):
            s = base(rng=rng)
            h, w = s.grid.shape.height, s.grid.shape.width
            free = [(y, x) for y in range(1, h - 1) for x in range(1, w - 1) if isinstance(s.grid[y, x], Floor) and (y, x) != s.agent.position.yx]
            picks = rng.choice(len(free), size=min(4, len(free)), replace=False)
            things = [lambda: Box(Key(Color.RED)), lambda: Box(Key(Color.BLUE)), lambda: Door(Door.Status.CLOSED, Color.RED), lambda: Key(Color.GREEN)]
            for i, make in zip(picks, things):
                s.grid[Position(*free[int(i)])] = make()
            return s
        try:
            envs_ = [comp.build_env(desc, reset_override=reset) for _ in range(5)]
        except Exception:  # noqa: BLE001
            continue
        seed = r.randrange(1 << 30)
        acts = [r.choice([0, 0, 6, 6, 6, 7, 4, 5, 1, 2, 3]) for _ in range(r.randint(8, 25))]
        # the functional thread
        ref = envs_[0]
        ref.set_seed(seed)
        s = ref.functional_reset()
        thread = [wire.cstate(s)]
        try:
            for a in acts:
                s, rw, dn = ref.functional_step(s, envs.ACTS[a])
                thread.append((wire.cstate(s), float(rw).hex(), bool(dn)))
        except Exception:  # noqa: BLE001
            continue
        for pattern, env in zip(('never', 'always', 'twice at reset', 'every other step'), envs_[1:]):
            env.set_seed(seed)
            env.reset()
            if pattern in ('always', 'twice at reset'):
                env.observation
                env.observation
            got = [wire.cstate(env.state)]
            for i, a in enumerate(acts):
                rw, dn = env.step(envs.ACTS[a])
                got.append((wire.cstate(env.state), float(rw).hex(), bool(dn)))
                if pattern == 'always' or (pattern == 'every other step' and i % 2 == 0):
                    env.observation
            ctx.case(('read-pattern', k, pattern), True, None)
            ctx.count('read pattern', pattern)
            if got != thread:
                j = next(i for i, (x, y) in enumerate(zip(got, thread)) if x != y)
                ctx.violation(f'reading observations ({pattern}) changed the trajectory: the stateful run differs from the functional threading at step {j}',
                              {'env': desc, 'seed': seed, 'actions': [envs.ACTS[a].name for a in acts], 'pattern': pattern, 'step': j,
                               'stateful': str(got[j])[:300], 'functional': str(thread[j])[:300]})


def seeding_history(ctx):
    """seeding is about the generator only.  (a) set_seed in the MIDDLE of an episode leaves the state and its memoised observation alone,
    and what follows is the functional threading from that state under the new seed.  (b) an environment that was never given a seed uses
    the library-level generator of the moment: after the library is re-seeded, a used environment and a fresh one produce the same
    trajectory as the functional threading."""
    import gym_gridverse.rng as gvrng
    r = ctx.rng
    for k in range(12 if ctx.tier == 'quick' else 120):
        desc = envs.rand_env(r)
        if desc['reset']['name'] == 'memory':
            continue
        desc['obs'] = dict(desc['obs'], name=r.choice(['stochastic_raytracing', 'stochastic_raytracing', 'raytracing']))
        desc['actions'] = list(range(8))
        try:
            a, b, c = comp.build_env(desc), comp.build_env(desc), comp.build_env(desc)
        except Exception:  # noqa: BLE001
            continue
        acts = [r.randrange(8) for _ in range(r.randint(3, 10))]
        s0, s1 = r.randrange(1 << 30), r.choice([0, 1, r.randrange(1 << 30)])

        def go(env, acts):
            out = []
            for x in acts:
                try:
                    rw, dn = env.step(envs.ACTS[x])
                    out.append((wire.cstate(env.state), float(rw).hex(), bool(dn)))
                except Exception as e:  # noqa: BLE001
                    out.append(('raised', type(e).__name__))
            return out
        try:
            # (a)
            a.set_seed(s0)
            a.reset()
            go(a, acts[:2])
            o1, st1 = a.observation, a.state
            cs1 = wire.cstate(st1)
            a.set_seed(s1)
            o2 = a.observation
            ctx.case(('mid-episode seed', k), True, None)
            ctx.count('seeding history', 'set_seed in the middle of an episode')
            case = {'env': desc, 'seeds': [s0, s1], 'actions': acts}
            if o2 is not o1 or wire.cstate(a.state) != cs1:
                ctx.violation('set_seed in the middle of an episode dropped the memoised observation / changed the state', case)
            got = go(a, acts)
            b.set_seed(s1)
            # threaded from a COPY of the state object itself (not from a state rebuilt from its value: a reward computed from numpy-integer
            # coordinates and one computed from python integers may differ in the last bit -- core.same explains why -- and that is no one's fault)
            import pickle
            s = pickle.loads(pickle.dumps(st1))
            exp = []
            for x in acts:
                try:
                    s, rw, dn = b.functional_step(s, envs.ACTS[x])
                    exp.append((wire.cstate(s), float(rw).hex(), bool(dn)))
                except Exception as e:  # noqa: BLE001
                    exp.append(('raised', type(e).__name__))
            if got != exp and not any(x[0] == 'raised' for x in exp):
                ctx.violation('after set_seed in the middle of an episode the stateful run is not the functional threading from the current state under the new seed', case)
            # (b) never seeded: the library-level generator of the moment
            lib = r.randrange(1 << 30)
            gvrng.reset_gv_rng(r.randrange(1 << 30))
            c.reset()
            go(c, acts[:3])
            c.observation
            gvrng.reset_gv_rng(lib)
            c.reset()
            used = [wire.cstate(c.state)] + go(c, acts)
            fresh_env = comp.build_env(desc)
            gvrng.reset_gv_rng(lib)
            s = fresh_env.functional_reset()
            thread = [wire.cstate(s)]
            for x in acts:
                try:
                    s, rw, dn = fresh_env.functional_step(s, envs.ACTS[x])
                    thread.append((wire.cstate(s), float(rw).hex(), bool(dn)))
                except Exception as e:  # noqa: BLE001
                    thread.append(('raised', type(e).__name__))
            ctx.case(('library reseed', k), True, None)
            ctx.count('seeding history', 'library generator re-seeded under a used environment')
            if used != thread and not any(x[0] == 'raised' for x in thread if isinstance(x, tuple) and x and x[0] == 'raised'):
                ctx.violation('an environment without a seed of its own, used before, does not follow the re-seeded library generator: its run differs from the functional threading with the same library seed',
                              dict(case, library_seed=lib))
        finally:
            gvrng.reset_gv_rng(None)


def functional_is_functional(ctx):
    """the functional interface depends on its ARGUMENT only, also when the argument happens to be the environment's own current state object
    and an observation of it was memoised before: the state object is changed in place (turned, moved, a cell replaced) and
    functional_observation / functional_step of it are compared with those of a freshly built equal state on a fresh environment"""
    from gym_gridverse.geometry import Orientation, Position
    from gym_gridverse.grid_object import Floor, Wall
    r = ctx.rng
    for k in range(15 if ctx.tier == 'quick' else 150):
        desc = envs.rand_env(r)
        if desc['reset']['name'] == 'memory':
            continue
        desc['obs'] = dict(desc['obs'], name=r.choice(['fully_transparent', 'partially_occluded', 'raytracing']))
        desc['actions'] = list(range(8))
        try:
            env, ref = comp.build_env(desc), comp.build_env(desc)
        except Exception:  # noqa: BLE001
            continue
        env.set_seed(r.randrange(1 << 30))
        ref.set_seed(0)
        try:
            env.reset()
            env.observation
            st = env.state
            h, w = st.grid.shape.height, st.grid.shape.width
            st.agent.orientation = r.choice(list(Orientation))
            free = [(y, x) for y in range(h) for x in range(w) if isinstance(st.grid[y, x], Floor)]
            if free and r.random() < 0.7:
                st.agent.position = Position(*r.choice(free))
            y, x = r.randrange(1, max(2, h - 1)), r.randrange(1, max(2, w - 1))
            if (y, x) != st.agent.position.yx:
                st.grid[y, x] = r.choice([Floor, Wall])()
            value = wire.cstate(st)
            got = wire.cstate(env.functional_observation(st))
            exp = wire.cstate(ref.functional_observation(wire.mkstate(value)))
        except Exception:  # noqa: BLE001
            continue
        ctx.case(('functional-on-own-state', k), True, None)
        ctx.count('functional interface on the own state object', desc['obs']['name'])
        if got != exp:
            ctx.violation('functional_observation of the environment\'s own (in place modified) state object is not the observation of that state: a memoised observation leaked into the functional interface',
                          {'env': desc, 'state': gen.show_state(value)})


def rejected_actions(ctx):
    """an action outside the action space is rejected with ValueError and changes NOTHING: same state, same (memoised) observation object,
    no randomness consumed -- with a stochastic observation function a dropped memo would show as a re-sampled observation"""
    r = ctx.rng
    for k in range(30 if ctx.tier == 'quick' else 300):
        desc = envs.rand_env(r)
        desc['actions'] = sorted(r.sample(range(8), r.randint(1, 7)))
        desc['obs'] = dict(desc['obs'], name=r.choice(['stochastic_raytracing', 'stochastic_raytracing', 'raytracing']))
        try:
            env = comp.build_env(desc)
        except Exception:  # noqa: BLE001
            continue
        bad = r.choice([a for a in range(8) if a not in desc['actions']])
        # "outside the action space" is anything that is not one of its members: an Action left out of it, or not an Action at all
        # (a gym-style index, a name, None, a member of another enum)
        from gym_gridverse.geometry import Orientation
        bad_value = envs.ACTS[bad] if r.random() < 0.6 else r.choice([bad, envs.ACTS[bad].name, None, Orientation.F, 8, -1, 2.0])
        gvdebug.reset_gv_debug(r.random() < 0.5)
        try:
            with impl.Journal(r.randrange(1 << 30)) as j:
                access.set_rng(env, j.own)
                access.forget(env)
                try:
                    env.reset()
                    for a in [r.choice(desc['actions']) for _ in range(r.randint(0, 4))]:
                        env.step(envs.ACTS[a])
                    o1 = env.observation
                    s1 = wire.cstate(env.state)
                except Exception:  # noqa: BLE001
                    continue
                draws = len(j.log)
                try:
                    env.step(bad_value)
                    raised = None
                except Exception as e:  # noqa: BLE001
                    raised = type(e).__name__
                o2 = env.observation
                case = {'env': desc, 'rejected_action': repr(bad_value)}
                ctx.count('rejected action', raised or 'accepted')
                ctx.case(('rejected', repr(desc), repr(bad_value), k), True, None)
                if raised != 'ValueError':
                    ctx.violation(f'an action outside the action space gave {raised or "no exception"} instead of ValueError', case)
                elif wire.cstate(env.state) != s1:
                    ctx.violation('a rejected action changed the state', case)
                elif o2 is not o1 and (wire.cstate(o2) != wire.cstate(o1) or len(j.log) != draws):
                    ctx.violation('a rejected action dropped the memoised observation: it was recomputed (consuming randomness)', case)
        finally:
            gvdebug.reset_gv_debug(None)


def run(ctx):
    r = ctx.rng
    ctx.rule = ('operation sequences (reset / step / read state / read observation; read patterns none, every step, repeated, mixed; mid-episode '
                'resets; operations before the first reset; actions outside the action space) on all shipped configurations and random compositions, '
                'debug flag on and off; non-trivial = sequence with at least one observation read and one step')
    shipped = envs.shipped_envs()
    n_rand = 80 if ctx.tier == 'quick' else 400
    per = 5 if ctx.tier == 'quick' else 16
    length = 25 if ctx.tier == 'quick' else 60
    jobs = []
    for name, data, desc in shipped:
        env = factory_env_from_data(copy.deepcopy(data))
        for _ in range(per):
            jobs.append((name, env, desc))
    for i in range(n_rand):
        desc = envs.rand_env(r)
        try:
            env = comp.build_env(desc)
        except Exception as e:  # noqa: BLE001
            ctx.count('random env rejected at construction', type(e).__name__)
            continue
        jobs.append((f'random-{i}', env, desc))
    reqs, metas = [], []
    for label, env, desc in jobs:
        ops = envs.rand_ops(r, desc, r.randint(1, length))
        debug = r.random() < 0.5
        outs, log, tape = envs.run_ops(env, desc, ops, debug, r.randrange(1 << 30))
        gvdebug.reset_gv_debug(debug)
        functional_oracle(ctx, env, desc, ops, outs, tape, label)
        gvdebug.reset_gv_debug(None)
        if access.has_state(env):
            outer_oracle(ctx, env, ops, label)
        ctx.count('environment', label.split('-')[0] if label.startswith('random') else label)
        ctx.count('debug', debug)
        for o in outs:
            ctx.count('output', o[1][0] if o[0] == 'ok' else 'raised ' + o[1])
        nobs = sum(1 for k, _ in ops if k == 'obs')
        ctx.case((label, tuple(ops), tuple(map(tuple, tape))), nobs > 0 and any(k == 'step' for k, _ in ops),
                 {'env': label, 'ops': [f'{k}:{a}' if a is not None else k for k, a in ops][:30], 'draws': len(tape), 'debug': debug})
        reqs.append(envs.env_request(desc, debug, ops, tape))
        metas.append((label, desc, ops, debug, outs, log))
    seeded_threading(ctx, shipped)
    rejected_actions(ctx)
    read_patterns(ctx)
    seeding_history(ctx)
    functional_is_functional(ctx)
    # the outer environment over the same inner machine: inner and outer operations interleaved on one object stack (model: Gym.v)
    from vt.suites.C20 import check_jobs
    check_jobs(ctx, jobs[::2] if ctx.tier == 'quick' else jobs, ['io', 'io', 'o', 'oi'], length)
    answers = ctx.model(reqs)
    if answers is None:
        return
    for (label, desc, ops, debug, outs, log), ans in zip(metas, answers):
        kind, val, mlog = envs.decode_env(desc, ans)
        if kind != 'ok' or not core.same(val, outs) or impl.norm_log(mlog) != impl.norm_log(log):
            first = next((i for i, (a, b) in enumerate(zip(val or [], outs)) if a != b), None) if kind == 'ok' else None
            ctx.disagreement('environment machine: implementation and model differ',
                             {'env': label, 'desc': desc, 'ops': ops, 'debug': debug, 'model_kind': kind, 'first_difference': first,
                              'impl_out': str(outs[first])[:600] if first is not None else None,
                              'model_out': str(val[first])[:600] if first is not None else None,
                              'log_equal': impl.norm_log(mlog) == impl.norm_log(log)})


if __name__ == '__main__':
    sys.exit(core.main('C04', run, None))
