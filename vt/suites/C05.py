"""C05 -- observations are sound.  T1 (rotation table, orientation matrices) + T2 on tagged grids, all poses and headings,
view areas of any extent, four observation functions; oracle: the statement itself, using python object identity."""
import itertools as itt
import sys

import vt.boot  # noqa: F401
from gym_gridverse.geometry import Orientation, Position
from gym_gridverse.grid_object import Hidden

from vt import core, gen, impl, osuite, wire


def oracle(ctx, name, area, cs, kind, val, obs, state):
    case = {'function': name, 'area': area, 'state': gen.show_state(cs), 'wire_state': cs}
    ymin, ymax, xmin, xmax = area
    H, W = ymax - ymin + 1, xmax - xmin + 1
    contains_agent = ymin <= 0 <= ymax and xmin <= 0 <= xmax
    if kind != 'ok':
        documented = (name == 'partially_occluded' and ymax != 0) or (name in ('raytracing', 'stochastic_raytracing') and not contains_agent)
        if not documented:
            ctx.violation(f'{name} raised {val}', case)
        return
    g = obs.grid
    if (g.shape.height, g.shape.width) != (H, W):
        ctx.violation(f'observation shape {g.shape} is not the view shape {(H, W)}', case)
        return
    if obs.agent.position != Position(-ymin, -xmin) or obs.agent.orientation is not Orientation.F:
        ctx.violation('observation agent is not at the view anchor facing FORWARD', case)
    if obs.agent.grid_object is not state.agent.grid_object and wire.cobj(obs.agent.grid_object) != wire.cobj(state.agent.grid_object):
        ctx.violation('held item not reported unchanged', case)
    sh, sw = state.grid.shape.height, state.grid.shape.width
    for i in range(H):
        for j in range(W):
            c = g[i, j]
            wp = state.agent.transform * Position(ymin + i, xmin + j)
            inside = 0 <= wp.y < sh and 0 <= wp.x < sw
            if isinstance(c, Hidden):
                if name == 'fully_transparent' and inside and not isinstance(state.grid[wp], Hidden):
                    ctx.violation(f'fully_transparent hides the in-grid cell {wp.yx}', case)
                continue
            if not inside:
                ctx.violation(f'view cell {(i, j)} falls outside the grid but shows {c!r}', case)
            elif c is not state.grid[wp] and wire.cobj(c) != wire.cobj(state.grid[wp]):
                ctx.violation(f'view cell {(i, j)} shows {c!r}, world cell {wp.yx} holds {state.grid[wp]!r}', case)
            elif c is not state.grid[wp]:
                ctx.count('equal-but-not-identical cell', 1)


def cases(ctx):
    r = ctx.rng
    n = 700 if ctx.tier == 'quick' else 7000
    for _ in range(n):
        cs = osuite.tagged_state(r, 1, 8 if ctx.tier == 'quick' else 13)
        yield (r.choice(osuite.ONAMES), osuite.rand_area(r), cs, 'random')
    for area, cs in osuite.large_cases(r, 6 if ctx.tier == 'quick' else 40):
        yield (r.choice(['fully_transparent', 'raytracing', 'fully_transparent']), area, cs, 'large')
    # exhaustive: all poses x all areas within [-2,2]^2 (quick) / [-3,3]^2 (thorough) on tagged grids <= 3x3 / 4x4, fully_transparent + raytracing
    lim = 2 if ctx.tier == 'quick' else 3
    shapes = [(2, 3), (3, 2)] if ctx.tier == 'quick' else [(2, 3), (3, 2), (3, 4), (4, 3), (1, 4)]
    for (h, w) in shapes:
        tags = [o for o in gen.all_objects(depth=0) if o[0] != gen.TY['Floor']][:h * w]
        g = tuple(tuple(tags[i * w + j] for j in range(w)) for i in range(h))
        for y0 in range(-lim, lim + 1):
            for y1 in range(y0, lim + 1):
                for x0 in range(-lim, lim + 1):
                    for x1 in range(x0, lim + 1):
                        for y in range(h):
                            for x in range(w):
                                o = r.randrange(4)
                                yield ('fully_transparent', (y0, y1, x0, x1), (g, (y, x), o, gen.NONE), 'exhaustive-areas')


def run_cases(ctx, cs_iter):
    metas, reqs = [], []
    for name, area, cs, origin in cs_iter:
        kind, val, log, tape, obs, state = osuite.run_obs(name, area, cs, seed=ctx.rng.randrange(1 << 30))
        oracle(ctx, name, area, cs, kind, val, obs, state)
        ymin, ymax, xmin, xmax = area
        ctx.count('function', name)
        ctx.count('origin', origin)
        ctx.count('heading', 'FBLR'[cs[2]])
        ctx.count('view', 'square' if ymax - ymin == xmax - xmin else 'non-square')
        ctx.count('result', kind if kind == 'ok' else val)
        nontrivial = kind == 'ok' and any(c[0] not in (gen.TY['Hidden'], gen.TY['Floor']) for row in val[0] for c in row)
        ctx.case((name, area, cs), nontrivial, {'function': name, 'area': area, 'state': gen.show_state(cs), 'result': kind})
        metas.append((name, area, cs, kind, val, log))
        reqs.append(osuite.obs_request(name, area, cs, tape))
    osuite.compare(ctx, metas, reqs)


def run(ctx):
    ctx.rule = ('tagged grids 1x1..8x8 (thorough 13x13), edge-biased poses, all headings, view areas of any extent (bottom-centre, asymmetric, '
                'not containing the agent, outside the grid), four observation functions; exhaustive: all poses x all areas in [-2,2]^2 on tagged '
                'non-square grids; non-trivial = the observation shows at least one non-floor object')
    run_cases(ctx, cases(ctx))
    osuite.run_histories(ctx, 150 if ctx.tier == 'quick' else 1500,
                         lambda name, area, cs, kind, val, obs, state: oracle(ctx, name, area, cs, kind, val, obs, state))
    # the observation point `functional_observation(state)` on an ENVIRONMENT: the view of the state handed in, also when that state is the
    # environment's own state object, changed in place after an observation of it was produced
    from vt.suites import C04
    C04.functional_is_functional(ctx)


def replay(ctx, case):
    if 'wire_state' not in case:
        return run(ctx)
    run_cases(ctx, [(case['function'], tuple(case['area']), __import__('vt.tsuite', fromlist=['tup']).tup(case['wire_state']), 'replay')])


if __name__ == '__main__':
    sys.exit(core.main('C05', run, replay))
