"""C06 -- hidden cells carry no information.  T2 on the visibility registry (masks) and the observation functions;
exhaustive opacity patterns on small views; pair oracle: replace a hidden / out-of-view world cell by every object of an
alphabet and compare the real observations; monotonicity; stochastic bounds with seeds and scripted random() values."""
import itertools as itt
import sys

import numpy as np

import vt.boot  # noqa: F401
from gym_gridverse.envs.visibility_functions import visibility_function_registry as VREG
from gym_gridverse.geometry import Orientation, Position
from gym_gridverse.grid_object import Hidden
from gym_gridverse.utils.raytracing import cached_compute_rays_fancy

from vt import comp, core, gen, impl, osuite, wire
from vt.rngproxy import ScriptedRng, TWO53

WALL, FLOOR = gen.WALL, gen.FLOOR
ALPHABET = [gen.FLOOR, gen.WALL, (gen.TY['Exit'], 0, 1, None), (gen.TY['Door'], 0, 2, None), (gen.TY['Door'], 1, 2, None),
            (gen.TY['Door'], 2, 4, None), (gen.TY['Key'], 0, 3, None), (gen.TY['MovingObstacle'], 0, 0, None),
            (gen.TY['Box'], 0, 0, gen.WALL), (gen.TY['Telepod'], 0, 1, None), (gen.TY['Beacon'], 0, 2, None), gen.HIDDEN]


def mask_of(name, cg, pos, rng=None):
    g = wire.mkgrid(cg)
    try:
        m = VREG[name](g, Position(*pos), rng=rng)
        return ('ok', sorted((int(y), int(x)) for y, x in zip(*np.nonzero(m))))
    except Exception as e:  # noqa: BLE001
        return ('err', wire.EXN_NAMES.get(wire.exn_code(e), type(e).__name__))


def rays_of(cg, pos):
    h, w = gen.shape_of(cg)
    from gym_gridverse.geometry import Area
    view = Area((0, h - 1), (0, w - 1))
    if not view.contains(Position(*pos)):
        return []
    return [[(p.y, p.x) for p in ray] for ray in cached_compute_rays_fancy(Position(*pos), view)]


def vis_request(name, cg, pos, tape):
    rays = rays_of(cg, pos) if name in ('raytracing', 'stochastic_raytracing') else []
    return [7, comp.V_TAGS[name], 1, *comp.enc_rays(rays), *wire.egrid(cg), *pos, *wire.etape(tape)]


def adjacent_chain_ok(cg, pos, mask):
    """every visible cell is linked to the agent's cell by a chain of adjacent (8-neighbourhood) transparent visible cells"""
    vis = set(mask)
    if tuple(pos) not in vis:
        return not vis
    transparent = lambda c: not wire.mkobj(cg[c[0]][c[1]]).blocks_vision
    seen, todo = {tuple(pos)}, [tuple(pos)]
    while todo:
        c = todo.pop()
        if not transparent(c) and c != tuple(pos):
            continue
        if not transparent(c):
            continue
        for dy in (-1, 0, 1):
            for dx in (-1, 0, 1):
                n = (c[0] + dy, c[1] + dx)
                if n in vis and n not in seen:
                    seen.add(n)
                    todo.append(n)
    return seen == vis


def search_failing(ctx, name, cg, pos):
    """the model and the code disagree on this board: search it (and its one-cell variants) for an input on which the PROPERTY fails --
    every invisible cell flipped (non-interference), every visible opaque cell cleared (monotonicity), agent cell, chain"""
    got = mask_of(name, cg, pos)
    if got[0] != 'ok':
        return
    h, w = gen.shape_of(cg)
    case = {'visibility': name, 'view': gen.show_state((cg, pos, 0, gen.NONE))['grid'], 'agent': pos, 'grid': cg, 'found_by': 'search after a correspondence failure'}
    vis = set(got[1])
    if tuple(pos) not in vis:
        ctx.violation(f"{name}: the agent's own cell is not visible", case)
    if not adjacent_chain_ok(cg, pos, got[1]):
        ctx.violation(f'{name}: a visible cell has no chain of adjacent transparent visible cells to the agent', case)
    for y in range(h):
        for x in range(w):
            if (y, x) not in vis:
                for repl in (WALL, FLOOR):
                    if repl != cg[y][x]:
                        got2 = mask_of(name, gen.set_cell(cg, (y, x), repl), pos)
                        if got2 != got:
                            ctx.violation(f'{name}: changing the invisible cell {(y, x)} changed which cells are visible', dict(case, cell=(y, x)))
                            return
            elif wire.mkobj(cg[y][x]).blocks_vision:
                got2 = mask_of(name, gen.set_cell(cg, (y, x), FLOOR), pos)
                if got2[0] == 'ok' and not vis <= set(got2[1]):
                    ctx.violation(f'{name}: making the visible opaque cell {(y, x)} transparent hid {sorted(vis - set(got2[1]))}', dict(case, cell=(y, x)))
                    return


def grid_histories(ctx):
    """visibility is a function of the grid's CONTENT at the time of the call: one Grid object is looked at, changed in place (doors opened /
    shut through their own attribute, cells assigned, cells swapped), and looked at again -- always the same answer as a freshly built grid
    with the same content"""
    from gym_gridverse.geometry import Position
    r = ctx.rng
    CL, LK, OP = (gen.TY['Door'], 1, 2, None), (gen.TY['Door'], 2, 4, None), (gen.TY['Door'], 0, 1, None)
    for k in range(120 if ctx.tier == 'quick' else 1200):
        h, w = r.choice([(5, 5), (7, 7), (4, 6), (6, 5)])
        cg = tuple(tuple(r.choice([FLOOR] * 6 + [WALL, CL, LK, OP]) for _ in range(w)) for _ in range(h))
        pos = (h - 1, r.randrange(w))
        cg = gen.set_cell(cg, pos, FLOOR)
        grid = wire.mkgrid(cg)
        for step in range(r.randint(2, 5)):
            name = r.choice(['raytracing', 'partially_occluded', 'stochastic_raytracing'])
            rng = ScriptedRng([[0] * (h * w)]) if name == 'stochastic_raytracing' else None
            try:
                got = sorted((int(y), int(x)) for y, x in zip(*np.nonzero(VREG[name](grid, Position(*pos), rng=rng))))
            except Exception as e:  # noqa: BLE001
                got = ('err', type(e).__name__)
            content = wire.cgrid(grid)
            rng2 = ScriptedRng([[0] * (h * w)]) if name == 'stochastic_raytracing' else None
            fresh = mask_of(name, content, pos, rng=rng2)
            fresh = fresh[1] if fresh[0] == 'ok' else ('err', fresh[1])
            ctx.case(('grid-history', k, step, name), True, None)
            ctx.count('grid history', name)
            if got != fresh:
                ctx.violation(f'{name}: a Grid object that was looked at and then changed in place is seen differently from a fresh grid with the same content',
                              {'visibility': name, 'agent': pos, 'content': gen.show_state((content, pos, 0, gen.NONE))['grid'], 'step': step})
                return
            # change it in place; half of the rounds touch nothing but door statuses (no cell is assigned: the Grid object is not told)
            doors = [(y, x) for y in range(h) for x in range(w) if hasattr(grid[y, x], 'state') and hasattr(type(grid[y, x]), 'Status')]
            if doors and r.random() < 0.5:
                for y, x in r.sample(doors, min(len(doors), r.randint(1, 3))):
                    d = grid[y, x]
                    d.state = type(d).Status.OPEN if d.blocks_vision else r.choice([type(d).Status.CLOSED, type(d).Status.LOCKED])
                continue
            for _ in range(r.randint(1, 3)):
                y, x = r.randrange(h), r.randrange(w)
                if (y, x) == pos:
                    continue
                o = grid[y, x]
                kind = r.random()
                if hasattr(o, 'state') and hasattr(type(o), 'Status') and kind < 0.6:
                    o.state = r.choice(list(type(o).Status))               # what actuate_door does
                elif kind < 0.8:
                    grid[y, x] = wire.mkobj(r.choice([FLOOR, WALL, CL, OP]))
                else:
                    y2, x2 = r.randrange(h), r.randrange(w)
                    if (y2, x2) != pos:
                        grid.swap(Position(y, x), Position(y2, x2))


def run(ctx):
    r = ctx.rng
    ctx.rule = ('(a) ALL opacity patterns of every view up to 3x3 and 2x4 (thorough: up to 3x5, 4x3, 4x4) with the agent on the bottom row: masks of '
                'partially_occluded and raytracing vs model, agent visible, chain, monotonicity under clearing one visible opaque cell; '
                '(b) random states/areas: replace each hidden or out-of-view WORLD cell by every object of a 12-object alphabet and compare the real '
                'observations, and the same world with every door toggled (chain clause, model); (c) stochastic_raytracing: seeds and scripted u (0.0, just below 1) against the '
                'deterministic mask, sparse pillar boards, one corridor deeper than 100 cells; (d) one Grid object looked at, changed in place (door statuses, assignments, swaps), looked at again; '
                'non-trivial = the view contains at least one opaque cell that hides something')
    reqs, metas = [], []
    shapes = [(h, w) for h in (1, 2, 3) for w in (1, 2, 3)] + [(1, 4), (2, 4)] if ctx.tier == 'quick' else [(h, w) for h in (1, 2, 3) for w in (1, 2, 3, 4, 5)] + [(4, 3), (4, 4)]
    for (h, w) in shapes:
        for x0 in range(w):
            pos = (h - 1, x0)
            for bits in itt.product((0, 1), repeat=h * w):
                cg = tuple(tuple(WALL if bits[i * w + j] else FLOOR for j in range(w)) for i in range(h))
                for name in ('partially_occluded', 'raytracing'):
                    got = mask_of(name, cg, pos)
                    ctx.count('exhaustive ' + name, f'{h}x{w}')
                    nontriv = got[0] == 'ok' and 0 < len(got[1]) < h * w
                    ctx.case((name, cg, pos), nontriv, {'visibility': name, 'view': ['.#'[b] for b in bits], 'shape': (h, w), 'agent': pos} if nontriv else None)
                    case = {'visibility': name, 'view': gen.show_state((cg, pos, 0, gen.NONE))['grid'], 'agent': pos}
                    if got[0] != 'ok':
                        ctx.violation(f'{name} raised {got[1]}', case)
                        continue
                    mask = got[1]
                    if tuple(pos) not in mask:
                        ctx.violation(f'{name}: the agent\'s own cell is not visible', case)
                    if not adjacent_chain_ok(cg, pos, mask):
                        ctx.violation(f'{name}: a visible cell has no chain of adjacent transparent visible cells to the agent', case)
                    # monotone: clear one visible opaque cell
                    for (y, x) in mask:
                        if cg[y][x] == WALL and r.random() < 0.3:
                            got2 = mask_of(name, gen.set_cell(cg, (y, x), FLOOR), pos)
                            if got2[0] == 'ok' and not set(mask) <= set(got2[1]):
                                ctx.violation(f'{name}: making the visible opaque cell {(y, x)} transparent hid {sorted(set(mask) - set(got2[1]))}', case)
                    reqs.append(vis_request(name, cg, pos, []))
                    metas.append((name, cg, pos, got))
    answers = ctx.model(reqs)
    if answers is not None:
        for (name, cg, pos, got), ans in zip(metas, answers):
            R = wire.Reader(ans)
            kind, val, log = R.outcome(lambda: sorted(set(R.lst(R.pos))))
            if (kind, val) != (got[0], got[1] if got[0] != 'ok' else [tuple(p) for p in got[1]]):
                search_failing(ctx, name, cg, pos)
                ctx.disagreement('visibility mask: implementation and model differ',
                                 {'visibility': name, 'grid': cg, 'agent': pos, 'impl': got, 'model': [kind, val]})
    # (d) large views (hundreds of rays: counters must not saturate or wrap): agent visible, chain, model comparison
    big = [(15, 15), (7, 31), (11, 11)] if ctx.tier == 'quick' else [(15, 15), (7, 31), (31, 7), (3, 63), (9, 9), (11, 11), (13, 13), (17, 17), (15, 31), (31, 31)]
    breqs, bmetas = [], []
    for (h, w) in big:
        for dens in (0.0, 0.08, 0.25):
            cg = tuple(tuple(WALL if r.random() < dens else FLOOR for _ in range(w)) for _ in range(h))
            pos = (h - 1, w // 2) if r.random() < 0.6 else (h - 1, r.randrange(w))
            cg = gen.set_cell(cg, pos, FLOOR)
            for name in ('raytracing', 'partially_occluded'):
                got = mask_of(name, cg, pos)
                ctx.count('large view ' + name, f'{h}x{w}')
                ctx.case((name, cg, pos), True, None)
                case = {'visibility': name, 'shape': (h, w), 'agent': pos, 'wall_density': dens, 'grid': cg}
                if got[0] != 'ok':
                    ctx.violation(f'{name} raised {got[1]} on a {h}x{w} view', case)
                    continue
                if tuple(pos) not in got[1]:
                    ctx.violation(f'{name}: the agent\'s own cell is not visible in a {h}x{w} view', case)
                if not adjacent_chain_ok(cg, pos, got[1]):
                    ctx.violation(f'{name}: a visible cell has no chain of adjacent transparent visible cells to the agent ({h}x{w} view)', case)
                if dens == 0.0 and len(set(map(tuple, got[1]))) != h * w:
                    ctx.violation(f'{name}: an unobstructed {h}x{w} view does not show everything', case)
                breqs.append(vis_request(name, cg, pos, []))
                bmetas.append((name, cg, pos, got))
    answers = ctx.model(breqs)
    if answers is not None:
        for (name, cg, pos, got), ans in zip(bmetas, answers):
            R = wire.Reader(ans)
            kind, val, log = R.outcome(lambda: sorted(set(R.lst(R.pos))))
            if (kind, val) != (got[0], got[1] if got[0] != 'ok' else [tuple(p) for p in got[1]]):
                search_failing(ctx, name, cg, pos)
                ctx.disagreement('visibility mask (large view): implementation and model differ',
                                 {'visibility': name, 'shape': gen.shape_of(cg), 'agent': pos, 'grid': cg})
    # (e) medium views (5x5 .. 7x7, the sizes the shipped configurations use) with random occluder layouts: model comparison, chain, and
    #     non-interference at the level of the mask: flipping the opacity of a cell that is not visible leaves the mask unchanged
    mreqs, mmetas = [], []
    for _ in range(500 if ctx.tier == 'quick' else 5000):
        h, w = r.choice([(5, 5), (7, 7), (6, 5), (5, 7), (7, 5), (4, 7), (6, 6)])
        dens = r.choice([0.1, 0.2, 0.3, 0.45])
        cg = tuple(tuple(WALL if r.random() < dens else FLOOR for _ in range(w)) for _ in range(h))
        if r.random() < 0.3:
            # occluders come in BARS (three or four opaque cells in a row or column, like real walls): the inner cells of a bar seen edge-on are hidden
            # opaque cells between visible opaque ones
            rows = [[FLOOR] * w for _ in range(h)]
            for _b in range(r.randint(1, 4)):
                ln = r.choice([3, 3, 4])
                if r.random() < 0.5 and w >= ln:
                    y0, x0 = r.randrange(h), r.randrange(w - ln + 1)
                    for i in range(ln):
                        rows[y0][x0 + i] = WALL
                elif h >= ln:
                    y0, x0 = r.randrange(h - ln + 1), r.randrange(w)
                    for i in range(ln):
                        rows[y0 + i][x0] = WALL
            cg = tuple(tuple(row) for row in rows)
            ctx.count('medium view occluders', 'bars')
        if r.random() < 0.3:
            # occluders that are not walls: closed / locked doors block vision, open doors do not (opacity is a property of the INSTANCE);
            # no wall anywhere in the view
            CL, LK, OP = (gen.TY['Door'], 1, 2, None), (gen.TY['Door'], 2, 4, None), (gen.TY['Door'], 0, 1, None)
            cg = tuple(tuple((r.choice([CL, LK]) if c == WALL else (OP if r.random() < 0.15 else FLOOR)) for c in row) for row in cg)
            ctx.count('medium view occluders', 'doors only')
        else:
            ctx.count('medium view occluders', 'walls')
        name = r.choice(['raytracing', 'partially_occluded'])
        # partially_occluded is defined for an agent on the bottom row only (it raises NotImplementedError otherwise, as documented)
        pos = (h - 1, w // 2) if r.random() < 0.7 else (h - 1 if name == 'partially_occluded' else r.randrange(h), r.randrange(w))
        got = mask_of(name, cg, pos)
        ctx.count('medium view ' + name, f'{h}x{w}')
        ctx.case((name, cg, pos), got[0] == 'ok' and len(got[1]) < h * w, None)
        case = {'visibility': name, 'view': gen.show_state((cg, pos, 0, gen.NONE))['grid'], 'agent': pos, 'grid': cg}
        if got[0] != 'ok':
            ctx.violation(f'{name} raised {got[1]}', case)
            continue
        if tuple(pos) not in got[1]:
            ctx.violation(f"{name}: the agent's own cell is not visible", case)
        if not adjacent_chain_ok(cg, pos, got[1]):
            ctx.violation(f'{name}: a visible cell has no chain of adjacent transparent visible cells to the agent', case)
        unseen = [(y, x) for y in range(h) for x in range(w) if (y, x) not in set(got[1])]
        r.shuffle(unseen)
        unseen.sort(key=lambda q: not wire.mkobj(cg[q[0]][q[1]]).blocks_vision)        # hidden OPAQUE cells first: their opacity is what must not matter
        for q in unseen[:4]:
            opaque_here = wire.mkobj(cg[q[0]][q[1]]).blocks_vision
            flipped = gen.set_cell(cg, q, FLOOR if opaque_here else r.choice([WALL, (gen.TY['Door'], 1, 2, None)]))
            got2 = mask_of(name, flipped, pos)
            ctx.count('mask-level replacement', name)
            if got2 != got:
                ctx.violation(f'{name}: changing the opacity of the invisible cell {q} changed which cells are visible '
                              f'({sorted(set(got[1]) ^ set(got2[1] if got2[0] == "ok" else []))})', dict(case, cell=q))
        mreqs.append(vis_request(name, cg, pos, []))
        mmetas.append((name, cg, pos, got))
    answers = ctx.model(mreqs)
    if answers is not None:
        for (name, cg, pos, got), ans in zip(mmetas, answers):
            R = wire.Reader(ans)
            kind, val, log = R.outcome(lambda: sorted(set(R.lst(R.pos))))
            if (kind, val) != (got[0], got[1] if got[0] != 'ok' else [tuple(p) for p in got[1]]):
                search_failing(ctx, name, cg, pos)
                ctx.disagreement('visibility mask (medium view): implementation and model differ',
                                 {'visibility': name, 'shape': gen.shape_of(cg), 'agent': pos, 'grid': cg, 'impl': got, 'model': [kind, val]})
    # (b) pair oracle on the observation functions
    n = 150 if ctx.tier == 'quick' else 1500
    ometas, oreqs = [], []
    for _ in range(n):
        cs = gen.rand_state(r, hi=7, floor_bias=0.55)
        name = r.choice(['partially_occluded', 'raytracing'])
        hh = r.randint(1, 6)
        half = r.randint(0, 3)
        area = (-(hh - 1), 0, -half, half)
        if name == 'raytracing' and r.random() < 0.35:
            # any extent: rows behind the agent, asymmetric, not containing the agent (partially_occluded is defined for forward views only)
            area = osuite.rand_area(r, centered=0.0, maxh=6, maxw=6)
            ctx.count('pair oracle area', 'general (rear rows / asymmetric)')
        else:
            ctx.count('pair oracle area', 'forward, centred')
        kind, val, log, tape, obs, state = osuite.run_obs(name, area, cs)
        ometas.append((name, area, cs, kind, val, log))
        oreqs.append(osuite.obs_request(name, area, cs, tape))
        if kind != 'ok':
            continue
        g, p, o, held = cs
        h, w = gen.shape_of(g)
        # world cells shown (not Hidden) in the observation
        shown = set()
        for i in range(area[1] - area[0] + 1):
            for j in range(area[3] - area[2] + 1):
                if not isinstance(obs.grid[i, j], Hidden):
                    wp = state.agent.transform * Position(area[0] + i, area[2] + j)
                    shown.add(wp.yx)
        if area[0] <= 0 <= area[1] and area[2] <= 0 <= area[3] and tuple(p) not in shown:
            ctx.violation(f"{name}: the agent's own cell is reported Hidden", {'function': name, 'area': area, 'state': gen.show_state(cs), 'wire_state': cs})
        hidden_cells = [(y, x) for y in range(h) for x in range(w) if (y, x) not in shown]
        r.shuffle(hidden_cells)
        f = comp.build_obs({'name': name, 'area': area})
        for q in hidden_cells[:4]:
            for repl in ALPHABET:
                if repl == g[q[0]][q[1]] or repl == gen.HIDDEN and False:
                    continue
                cs2 = (gen.set_cell(g, q, repl), p, o, held)
                o2 = f(wire.mkstate(cs2))
                ctx.count('pair replacement', name)
                ctx.case((name, area, cs, q, repl), True, None)
                if wire.cstate(o2) != val:
                    ctx.violation(f'{name}: replacing the hidden/out-of-view world cell {q} by {gen.show_obj(repl)} changed the observation',
                                  {'function': name, 'area': area, 'state': gen.show_state(cs), 'cell': q, 'replacement': gen.show_obj(repl), 'wire_state': cs})
        # the same world with every door toggled (open <-> shut: same object TYPES at the same places, other opacity), looked at right after:
        # opacity belongs to the object as it is now; the chain clause must hold in the toggled world, and the model is asked too
        DOOR = gen.TY['Door']
        if any(c[0] == DOOR for row in g for c in row):
            g2 = tuple(tuple((DOOR, 0 if c[1] != 0 else r.choice([1, 2]), c[2], None) if c[0] == DOOR else c for c in row) for row in g)
            cs2 = (g2, p, o, held)
            k2, v2, l2, t2, obs2, st2 = osuite.run_obs(name, area, cs2)
            ometas.append((name, area, cs2, k2, v2, l2))
            oreqs.append(osuite.obs_request(name, area, cs2, t2))
            ctx.count('pair oracle', 'doors toggled')
            if k2 == 'ok' and area[0] <= 0 <= area[1] and area[2] <= 0 <= area[3]:
                shown2 = set()
                for i in range(area[1] - area[0] + 1):
                    for j in range(area[3] - area[2] + 1):
                        if not isinstance(obs2.grid[i, j], Hidden):
                            wp = st2.agent.transform * Position(area[0] + i, area[2] + j)
                            if 0 <= wp.y < h and 0 <= wp.x < w:
                                shown2.add(wp.yx)
                if not adjacent_chain_ok(g2, p, sorted(shown2)):
                    ctx.violation(f'{name}: with the doors toggled, a shown cell is not linked to the agent by adjacent transparent shown cells',
                                  {'function': name, 'area': area, 'state': gen.show_state(cs2), 'wire_state': cs2, 'looked_at_before': gen.show_state(cs)})
    osuite.compare(ctx, ometas, oreqs)
    # (c) stochastic variant: bounds
    ns = 120 if ctx.tier == 'quick' else 1200
    sreqs, smetas = [], []
    deep = 1 if ctx.tier == 'quick' else 4
    for it in range(ns + deep):
        h, w = r.randint(1, 5), r.randint(1, 5)
        cg = gen.rand_grid(r, h, w, floor_bias=0.5)
        if it >= ns:
            # a view more than a hundred cells deep (a long corridor, one wall across it somewhere): no depth is special
            h, w = r.randint(103, 125), r.choice([1, 3])
            bar = r.randrange(2, h - 2)
            cg = tuple(tuple(WALL if y == bar else FLOOR for _ in range(w)) for y in range(h))
            ctx.count('deep view', f'{h}x{w}')
        elif r.random() < 0.5:
            # sparse pillars in views of the usual size: cells seen THROUGH gaps (fully lit cells beyond partially lit ones)
            h, w = r.choice([(5, 5), (7, 7), (6, 5), (5, 7), (6, 6), (8, 8), (4, 7), (3, 9)]) if r.random() < 0.7 else (r.randint(2, 9), r.randint(2, 9))
            cg = tuple(tuple(WALL if r.random() < r.choice([0.0, 0.08, 0.15, 0.25]) else FLOOR for _ in range(w)) for _ in range(h))
        pos = (h - 1, r.randrange(w)) if r.random() < 0.5 else (h - 1, w // 2)
        cg = gen.set_cell(cg, pos, FLOOR) if cg[pos[0]][pos[1]] == WALL else cg
        det = mask_of('raytracing', cg, pos)
        if det[0] != 'ok':
            continue
        rays = rays_of(cg, pos)
        # cells every ray reaches lit
        num, den = {}, {}
        for ray in rays:
            light = True
            for c in ray:
                num[c] = num.get(c, 0) + (1 if light else 0)
                den[c] = den.get(c, 0) + 1
                light = light and not wire.mkobj(cg[c[0]][c[1]]).blocks_vision
        always = {c for c in den if num[c] == den[c]}
        for mode in ('seed', 'zero', 'max'):
            if mode == 'seed':
                j = impl.Journal(r.randrange(1 << 30))
                rng = j.own
            else:
                z = 0 if mode == 'zero' else TWO53 - 1
                rng = ScriptedRng([[z] * (h * w)])
            got = mask_of('stochastic_raytracing', cg, pos, rng=rng)
            ctx.count('stochastic mode', mode)
            ctx.case(('stoch', cg, pos, mode, tuple(rng.tape[0]) if rng.tape else None), True, None)
            case = {'grid': gen.show_state((cg, pos, 0, gen.NONE))['grid'], 'agent': pos, 'mode': mode}
            if got[0] != 'ok':
                ctx.violation(f'stochastic_raytracing raised {got[1]}', case)
                continue
            if not set(got[1]) <= set(det[1]):
                ctx.violation(f'stochastic_raytracing shows {sorted(set(got[1]) - set(det[1]))}, which the deterministic ray-traced view never shows', case)
            if not always <= set(got[1]):
                ctx.violation(f'stochastic_raytracing hides {sorted(always - set(got[1]))}, which every ray reaches lit', case)
            if it < ns:          # (the deep corridors are decided by the bounds above; their ray tables are too large to ship to the model)
                sreqs.append(vis_request('stochastic_raytracing', cg, pos, rng.tape))
                smetas.append((cg, pos, got, mode))
    answers = ctx.model(sreqs)
    if answers is not None:
        for (cg, pos, got, mode), ans in zip(smetas, answers):
            R = wire.Reader(ans)
            kind, val, log = R.outcome(lambda: sorted(set(R.lst(R.pos))))
            if (kind, val) != (got[0], [tuple(p) for p in got[1]]):
                if mode == 'seed':
                    ctx.count('stochastic near-tie skipped', 1)
                    continue
                ctx.disagreement('stochastic mask: implementation and model differ', {'grid': cg, 'agent': pos, 'mode': mode, 'impl': got, 'model': [kind, val]})
    grid_histories(ctx)


if __name__ == '__main__':
    sys.exit(core.main('C06', run, None))
