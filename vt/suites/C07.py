"""C07 -- observations are egocentric.  Oracle: rotate the world (grid rebuilt by hand cell by cell, pose along the same
cell map, heading (-r) * o) and compare the real observations with ==; T2 as C05 (same observation model)."""
import sys

import vt.boot  # noqa: F401
from gym_gridverse.agent import Agent
from gym_gridverse.geometry import Orientation, Position
from gym_gridverse.grid import Grid
from gym_gridverse.state import State

from vt import comp, core, gen, impl, osuite, wire

ORIS = list(Orientation)
DET = ['fully_transparent', 'partially_occluded', 'raytracing']


def rotate_world(state, r):
    """(grid * r, pose carried along): cell (y, x) of an h x w grid lands at the position computed from a tagged probe"""
    g = state.grid
    h, w = g.shape.height, g.shape.width
    y, x = state.agent.position.yx
    if r is Orientation.F:
        ny, nx = y, x
    elif r is Orientation.B:
        ny, nx = h - 1 - y, w - 1 - x
    elif r is Orientation.R:
        ny, nx = w - 1 - x, y
    else:
        ny, nx = x, h - 1 - y
    # the rotated world is built BY HAND (same objects, cell (y, x) placed where a quarter turn puts it), not with the library's own grid
    # rotation: the property is about observations, and a slip in Grid.__mul__ must not be able to cancel itself out here
    def dest(yy, xx):
        if r is Orientation.F:
            return yy, xx
        if r is Orientation.B:
            return h - 1 - yy, w - 1 - xx
        if r is Orientation.R:
            return w - 1 - xx, yy
        return xx, h - 1 - yy
    h2, w2 = (h, w) if r in (Orientation.F, Orientation.B) else (w, h)
    rows = [[None] * w2 for _ in range(h2)]
    for yy in range(h):
        for xx in range(w):
            a, b = dest(yy, xx)
            rows[a][b] = g[yy, xx]
    g2 = Grid(rows)
    return State(g2, Agent(Position(ny, nx), (-r) * state.agent.orientation, state.agent.grid_object))


def run(ctx):
    r = ctx.rng
    ctx.rule = ('tagged grids 1x1..8x8 (non-square included), edge-biased poses, all headings, view areas of any extent, the three deterministic '
                'observation functions, all four quarter turns of the world; non-trivial = a non-identity turn whose observation shows an object')
    n = 500 if ctx.tier == 'quick' else 5000
    metas, reqs = [], []
    large = osuite.large_cases(r, 8 if ctx.tier == 'quick' else 30)
    for it in range(n + len(large)):
        if it < n:
            cs = osuite.tagged_state(r, 1, 8)
            name = r.choice(DET)
            area = osuite.rand_area(r)
        else:
            area, cs = large[it - n]          # large worlds, large views: whatever the code does differently for big inputs
            name = r.choice(['fully_transparent', 'fully_transparent', 'fully_transparent', 'raytracing'])   # ray tracing 1000+ cells takes seconds
            ctx.count('large world / view', f'{len(cs[0])}x{len(cs[0][0])}')
        kind, val, log, tape, obs, state = osuite.run_obs(name, area, cs)
        f = comp.build_obs({'name': name, 'area': area})
        for rot in ORIS:
            s2 = rotate_world(state, rot)
            try:
                o2 = f(s2)
                k2 = ('ok', wire.cstate(o2))
            except Exception as e:  # noqa: BLE001
                k2 = ('err', wire.EXN_NAMES.get(wire.exn_code(e), type(e).__name__))
            same = (k2 == (kind, val)) and (kind != 'ok' or (o2 == obs))
            ctx.count('turn', rot.name)
            ctx.count('function', name)
            nontrivial = rot is not Orientation.F and kind == 'ok' and any(c[0] not in (gen.TY['Hidden'], gen.TY['Floor']) for row in val[0] for c in row)
            ctx.case((name, area, cs, rot.value), nontrivial, {'function': name, 'area': area, 'state': gen.show_state(cs), 'turn': rot.name})
            if not same:
                ctx.violation(f'{name}: observation changes when the world is rotated by {rot.name}',
                              {'function': name, 'area': area, 'state': gen.show_state(cs), 'turn': rot.name, 'wire_state': cs})
            # the rotated world goes through the model as well
            if it >= n and name == 'raytracing':
                continue        # the extracted model needs minutes for ray tracing over 1000+ cells; these cases are decided by the oracle above
            cs2 = wire.cstate(s2)
            metas.append((name, area, cs2, k2[0], k2[1], []))
            reqs.append(osuite.obs_request(name, area, cs2, []))
    osuite.compare(ctx, metas, reqs)

    # histories: the state object observed before, moved in place, copied -- its observation must still equal the one of a freshly
    # built rotated world
    def check(name, area, cs, kind, val, obs, state):
        if name not in DET:
            return
        f = comp.build_obs({'name': name, 'area': area})
        for rot in (r.choice(ORIS[1:]),):
            s2 = rotate_world(wire.mkstate(cs), rot)
            try:
                o2 = f(s2)
                k2 = ('ok', wire.cstate(o2))
            except Exception as e:  # noqa: BLE001
                k2 = ('err', wire.EXN_NAMES.get(wire.exn_code(e), type(e).__name__))
            if k2 != (kind, val):
                ctx.violation(f'{name}: after a history of other calls, the observation differs from the one of the world rotated by {rot.name}',
                              {'function': name, 'area': area, 'state': gen.show_state(cs), 'turn': rot.name, 'wire_state': cs, 'history': True})
    osuite.run_histories(ctx, 200 if ctx.tier == 'quick' else 2000, check)


if __name__ == '__main__':
    sys.exit(core.main('C07', run, None))
