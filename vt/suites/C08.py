"""C08 -- agent kinematics.  T2: move_agent / turn_agent / every other transition function on edge-biased poses x all
actions x every kind of target cell; oracle: the property statement on the code's own output."""
import itertools as itt
import sys

import vt.boot  # noqa: F401
from gym_gridverse.geometry import Orientation, Position

from vt import core, gen, impl, tsuite, wire

ORIS = list(Orientation)
VEC = {0: (-1, 0), 1: (1, 0), 2: (0, -1), 3: (0, 1)}  # F B L R heading vectors (checked against the code by T1)
MUL = {(a.value, b.value): (a * b).value for a in ORIS for b in ORIS}
MOVE_DIR = {0: 0, 1: 1, 2: 2, 3: 3}   # MOVE_FORWARD.. -> F B L R
BLOCKS = None


def blocks(c):
    o = wire.mkobj(c)
    return bool(o.blocks_movement)


def target(cs, action):
    (g, (y, x), o, held) = cs
    d = MUL[(o, MOVE_DIR[action])]
    return (y + VEC[d][0], x + VEC[d][1])


def oracle(ctx, names, cs, action, kind, val):
    """C08's statement, on the implementation's result"""
    g, p, o, held = cs
    h, w = gen.shape_of(g)
    case = {'functions': [impl.TNAMES[n] for n in names], 'state': gen.show_state(cs), 'action': impl.ACTS[action].name, 'wire_state': cs}
    if kind != 'ok':
        ctx.violation(f'transition raised {val}', case)
        return
    g2, p2, o2, held2 = val
    only = names[0] if len(names) == 1 else None
    if only == 0:  # move_agent
        if action < 4:
            t = target(cs, action)
            inside = 0 <= t[0] < h and 0 <= t[1] < w
            should = inside and not blocks(g[t[0]][t[1]])
            exp = t if should else p
            if p2 != exp:
                ctx.violation(f'move_agent: agent at {p} heading {"FBLR"[o]} ends at {p2}, expected {exp}', case)
        elif p2 != p:
            ctx.violation('move_agent displaced the agent under a non-move action', case)
        if o2 != o or g2 != g or held2 != held:
            ctx.violation('move_agent changed heading, grid or held item', case)
    elif only == 1:  # turn_agent
        exp = MUL[(o, 2)] if action == 4 else MUL[(o, 3)] if action == 5 else o
        if o2 != exp or p2 != p or g2 != g or held2 != held:
            ctx.violation('turn_agent: wrong heading or something else changed', case)
    elif only in (2, 3, 4, 5):
        if (p2, o2) != (p, o):
            ctx.violation(f'{impl.TNAMES[only]} changed the pose', case)
    # kinematic invariant (all functions, all compositions)
    if 0 <= p[0] < h and 0 <= p[1] < w and not blocks(g[p[0]][p[1]]):
        ok = 0 <= p2[0] < h and 0 <= p2[1] < w and not blocks(g2[p2[0]][p2[1]])
        if not ok:
            ctx.violation(f'kinematic invariant broken: agent ends at {p2} (outside the grid or on a blocking cell)', case)


def gen_cases(ctx):
    r = ctx.rng
    n = 600 if ctx.tier == 'quick' else 6000
    # (a) every kind of target cell x every pose class on a small grid, exhaustively
    objs = gen.all_objects(depth=1)
    for tgt in objs:
        for o in range(4):
            for act in range(8):
                # agent in the centre of a 3x3 floor grid, target object placed on each neighbour
                g = tuple(tuple(gen.FLOOR for _ in range(3)) for _ in range(3))
                for nb in ((0, 1), (1, 0), (1, 2), (2, 1)):
                    g = gen.set_cell(g, nb, tgt)
                yield ([0], (g, (1, 1), o, gen.NONE), act, 'target-kind')
    # (b) all poses x all actions on all grids <= 2x2 / 1x3 over {Floor, Wall} (outside-the-grid targets on every side)
    shapes = [(1, 1), (1, 2), (2, 1), (2, 2), (1, 3), (3, 1)] + ([(2, 3), (3, 2), (3, 3)] if ctx.tier == 'thorough' else [])
    for (h, w) in shapes:
        for cells in itt.product([gen.FLOOR, gen.WALL], repeat=h * w):
            g = tuple(tuple(cells[i * w + j] for j in range(w)) for i in range(h))
            for y in range(h):
                for x in range(w):
                    for o in range(4):
                        for act in range(6):
                            yield ([r.choice([0, 0, 1])] if act < 4 else [1], (g, (y, x), o, gen.NONE), act, 'exhaustive-small')
    # (c) random states, every function and random compositions
    for _ in range(n):
        cs = gen.rand_state(r, hi=6)
        act = r.randrange(8)
        k = r.random()
        if k < 0.35:
            names = [0]
        elif k < 0.5:
            names = [1]
        elif k < 0.75:
            names = [r.randrange(7)]
        else:
            names = [r.randrange(7) for _ in range(r.randint(2, 5))]
        yield (names, cs, act, 'random')
    yield from tsuite.wrap_cases(ctx, n // 2, focus=[0, 0, 1])


def run_cases(ctx, cases):
    reqs, metas = [], []
    for names, cs, act, origin in cases:
        own = True
        kind, val, log, tape = impl.run_transition(names, cs, act, own, seed=ctx.rng.randrange(1 << 30))
        oracle(ctx, names, cs, act, kind, val)
        g, p, o, held = cs
        h, w = gen.shape_of(g)
        nontrivial = False
        if names == [0] and act < 4:
            t = target(cs, act)
            nontrivial = True
            ctx.count('move target', 'outside' if not (0 <= t[0] < h and 0 <= t[1] < w) else 'blocking' if blocks(g[t[0]][t[1]]) else 'free')
        elif len(names) > 1 or names[0] != 0:
            nontrivial = (kind == 'ok' and val != cs) or len(names) > 1
        ctx.count('origin', origin)
        ctx.count('action', impl.ACTS[act].name)
        ctx.case((tuple(names), cs, act), nontrivial, {'functions': [impl.TNAMES[n] for n in names], 'state': gen.show_state(cs),
                                                       'action': impl.ACTS[act].name, 'result': kind})
        reqs.append(impl.transition_request(names, own, act, cs, tape))
        metas.append((names, cs, act, kind, val, log))
    answers = ctx.model(reqs)
    if answers is None:
        return
    for (names, cs, act, kind, val, log), ans in zip(metas, answers):
        mk, mv, mlog = impl.decode_transition(ans)
        if (mk, mv) != (kind, val) or impl.norm_log(mlog) != impl.norm_log(log):
            ctx.disagreement('transition: implementation and model differ',
                             {'functions': [impl.TNAMES[n] for n in names], 'state': gen.show_state(cs), 'wire_state': cs,
                              'action': impl.ACTS[act].name, 'impl': [kind, val, log], 'model': [mk, mv, mlog], 'names': names, 'act': act})


def corpus():
    F = gen.FLOOR
    g3 = tuple(tuple(F for _ in range(3)) for _ in range(3))
    # D1: the agent on the top / left edge facing outward (python's negative index wrapped)
    yield ([0], (g3, (0, 1), 0, gen.NONE), 0, 'corpus')
    yield ([0], (g3, (1, 0), 2, gen.NONE), 0, 'corpus')
    yield ([0], (g3, (2, 1), 1, gen.NONE), 0, 'corpus')
    yield ([0], (g3, (1, 2), 3, gen.NONE), 0, 'corpus')


def history_oracle(ctx, names, cs, action, kind, val, log, tape):
    """one step of the full chain (move_agent first) after a history of other steps: the move must obey the grid AS IT IS NOW"""
    g, p, o, held = cs
    h, w = gen.shape_of(g)
    case = {'functions': [impl.TNAMES[n] for n in names], 'state': gen.show_state(cs), 'action': impl.ACTS[action].name, 'wire_state': cs, 'history': True}
    if kind != 'ok':
        ctx.violation(f'transition raised {val}', case)
        return
    g2, p2, o2, held2 = val
    exp = p
    if action < 4:
        t = target(cs, action)
        if 0 <= t[0] < h and 0 <= t[1] < w and not blocks(g[t[0]][t[1]]):
            exp = t
    on_telepod = g[exp[0]][exp[1]][0] == gen.TY['Telepod']
    if p2 != exp and not on_telepod:
        ctx.violation(f'after a history of other steps: agent at {p} heading {"FBLR"[o]} under {impl.ACTS[action].name} ends at {p2}, expected {exp}', case)
    if not (0 <= p2[0] < h and 0 <= p2[1] < w) or (not blocks(g[p[0]][p[1]]) and blocks(g2[p2[0]][p2[1]])):
        ctx.violation(f'kinematic invariant broken after a history: agent ends at {p2}', case)


def agent_variants(ctx):
    """how far / where an agent REACHES (`Agent.front`, the cell ACTUATE and PICK_N_DROP act on) has nothing to do with how it moves: user
    agents with a longer or sideways reach move exactly like the stock agent"""
    from gym_gridverse.agent import Agent
    from gym_gridverse.envs import transition_functions as tf
    from gym_gridverse.geometry import Orientation, Position
    from gym_gridverse.state import State

    class LongArm(Agent):
        def front(self):
            return self.transform * Position(-2, 0)

    class SideGripper(Agent):
        def front(self):
            return self.transform * Position(0, 1)
    r = ctx.rng
    for k in range(150 if ctx.tier == 'quick' else 1500):
        cs = tsuite.interactive_world(r) if r.random() < 0.5 else (gen.rand_grid(r, r.randint(1, 4), r.randint(1, 4), floor_bias=0.6), None, r.randrange(4), gen.NONE)
        if cs[1] is None:
            h, w = gen.shape_of(cs[0])
            cs = (cs[0], (r.randrange(h), r.randrange(w)), cs[2], cs[3])
        action = r.randrange(8)
        names = r.choice([[0], [0], [1], [0, 1]])
        outs = []
        for cls in (Agent, LongArm, SideGripper):
            s0 = wire.mkstate(cs)
            s = State(s0.grid, cls(s0.agent.position, s0.agent.orientation, s0.agent.grid_object))
            try:
                for n in names:
                    tf.transition_function_registry[impl.TNAMES[n]](s, impl.ACTS[action], rng=None)
                outs.append(('ok', wire.cstate(s)))
            except Exception as e:  # noqa: BLE001
                outs.append(('err', type(e).__name__))
        ctx.case(('agent-variant', cs, action, tuple(names)), outs[0][0] == 'ok' and outs[0][1] != cs, None)
        ctx.count('agent variants', impl.ACTS[action].name)
        if outs[1] != outs[0] or outs[2] != outs[0]:
            which = 'a two-cell reach' if outs[1] != outs[0] else 'a sideways reach'
            ctx.violation(f'{"+".join(impl.TNAMES[n] for n in names)}: an agent with {which} (Agent.front overridden) moves / turns differently from the stock agent',
                          {'functions': [impl.TNAMES[n] for n in names], 'state': gen.show_state(cs), 'action': impl.ACTS[action].name, 'stock': str(outs[0])[:200], 'variant': str(outs[1] if outs[1] != outs[0] else outs[2])[:200]})
        else:
            oracle(ctx, names, cs, action, outs[0][0], outs[0][1])


def run(ctx):
    ctx.rule = ('corpus of past failures, then every object kind as move target x headings x actions, then ALL poses x actions on all '
                'Floor/Wall grids up to 2x2,1x3 (thorough: 3x3), then random states (edge-biased poses) with single functions and '
                'compositions; step histories on one carried state object (one in three starting with bump / ACTUATE / walk in); user agents with another reach (Agent.front overridden) move like the stock agent; failing cases are minimised; non-trivial = a move action through move_agent, or a step that changed the state / a composition')
    run_cases(ctx, itt.chain(corpus(), gen_cases(ctx)))
    tsuite.run_histories(ctx, 200 if ctx.tier == 'quick' else 2000, history_oracle)
    agent_variants(ctx)
    ctx.exhaustive = False


def replay(ctx, case):
    cs = case.get('wire_state')
    if cs is None:
        return run(ctx)
    def tup(x):
        return tuple(tup(v) for v in x) if isinstance(x, list) else x
    cs = tup(cs)
    names = case.get('names') or [impl.TNAMES.index(n) for n in case['functions']]
    act = case.get('act') if case.get('act') is not None else [a.name for a in impl.ACTS].index(case['action'])
    run_cases(ctx, [(names, cs, act, 'replay')])


if __name__ == '__main__':
    sys.exit(core.main('C08', run, replay))
