"""C09 -- objects are conserved.  Oracle: multiset of (type, colour, content) of held item + cells, Floor and empty hand
left out, before and after the real step; pick-and-drop case analysis; scenery positions."""
import collections
import itertools as itt
import sys

import vt.boot  # noqa: F401

from vt import core, gen, impl, tsuite, wire

FLOOR_T, NONE_T = gen.TY['Floor'], gen.TY['NoneGridObject']
BOX_T, OBST_T, KEY_T = gen.TY['Box'], gen.TY['MovingObstacle'], gen.TY['Key']


def key(c):
    ty, st, col, content = c
    return (ty, col, key(content) if content is not None else None)


def inventory(cs):
    g, p, o, held = cs
    items = [held] + [c for row in g for c in row]
    return collections.Counter(key(c) for c in items if c[0] not in (FLOOR_T, NONE_T))


def front(cs):
    g, (y, x), o, held = cs
    dy, dx = {0: (-1, 0), 1: (1, 0), 2: (0, -1), 3: (0, 1)}[o]
    return (y + dy, x + dx)


def holdable(c):
    return bool(wire.mkobj(c).holdable)


def oracle(ctx, names, cs, act, kind, val, log, tape):
    case = tsuite.case_dict(names, cs, act)
    if kind != 'ok':
        ctx.violation(f'transition raised {val}', case)
        return
    g, p, o, held = cs
    h, w = gen.shape_of(g)
    g2, p2, o2, held2 = val
    inv0, inv1 = inventory(cs), inventory(val)
    f = front(cs)
    infront = g[f[0]][f[1]] if 0 <= f[0] < h and 0 <= f[1] < w else None
    if len(names) == 1:
        n = names[0]
        box_opened = n == 5 and act == 6 and infront is not None and infront[0] == BOX_T
        if box_opened:
            exp = inv0.copy()
            exp[key(infront)] -= 1
            exp += collections.Counter()
            if infront[3][0] not in (FLOOR_T, NONE_T):
                exp[key(infront[3])] += 1
            if inv1 != exp:
                ctx.violation('opening a box did not replace exactly the box by its content', case)
        elif inv1 != inv0:
            ctx.violation(f'{impl.TNAMES[n]} changed the inventory: {dict(inv0 - inv1)} lost, {dict(inv1 - inv0)} created', case)
        if n == 2:  # pick-and-drop: the documented cases and nothing else
            changed = [(y, x) for y in range(h) for x in range(w) if g[y][x] != g2[y][x]]
            if any(q != f for q in changed):
                ctx.violation(f'pickndrop changed a cell other than the one in front: {changed}', case)
            can = act == 7 and infront is not None and (infront[0] == FLOOR_T or holdable(infront))
            if not can:
                if val != cs:
                    ctx.violation('pickndrop changed the state although there was nothing to pick and nowhere to drop', case)
            else:
                exp_held = infront if holdable(infront) else gen.NONE
                exp_cell = held if held[0] != NONE_T else gen.FLOOR
                if held2 != exp_held or g2[f[0]][f[1]] != exp_cell or (p2, o2) != (p, o):
                    ctx.violation('pickndrop: wrong pick / drop / swap', case)
    else:
        if 5 in names and act == 6 and infront is not None and infront[0] == BOX_T and 3 not in names and 6 not in names[:names.index(5)] \
                and g2[f[0]][f[1]] != infront[3]:
            ctx.violation('in a composition, an actuated box was not replaced by exactly its content', case)
        # compositions: the unwrapped inventory (box wrappers removed) is conserved by everything
        def deep(c):
            while c[0] == BOX_T and c[3] is not None:
                c = c[3]
            return c
        d0 = collections.Counter(key(deep(c)) for c in [held] + [c for row in g for c in row])
        d1 = collections.Counter(key(deep(c)) for c in [held2] + [c for row in g2 for c in row])
        for k in list(d0) + list(d1):
            if k[0] in (FLOOR_T, NONE_T):
                d0.pop(k, None)
                d1.pop(k, None)
        if d0 != d1:
            ctx.violation('a composition changed the multiset of (unwrapped) objects', case)
    # scenery never moves (except a box being opened)
    for y in range(h):
        for x in range(w):
            c = g[y][x]
            if c[0] in (FLOOR_T, OBST_T) or holdable(c):
                continue
            c2 = g2[y][x]
            if key(c2) != key(c) and not (c[0] == BOX_T and 5 in names and act == 6):
                ctx.violation(f'scenery at {(y, x)} changed', case)


def cases(ctx):
    r = ctx.rng
    yield from tsuite.corpus()
    n = 700 if ctx.tier == 'quick' else 7000
    # pick-and-drop: every object in front x every held item x every heading, agent in the centre and on each edge
    objs = gen.all_objects(depth=1)
    helds = [gen.NONE] + [o for o in objs if o[0] in (KEY_T, gen.TY['Wall'], BOX_T)][:8]
    F = gen.FLOOR
    for front_obj in objs:
        for held in helds:
            for o in range(4):
                g = tuple(tuple(F for _ in range(3)) for _ in range(3))
                for nb in ((0, 1), (1, 0), (1, 2), (2, 1)):
                    g = gen.set_cell(g, nb, front_obj)
                yield ([2], (g, (1, 1), o, held), 7, 'pickndrop-table')
    yield from tsuite.random_cases(ctx, n, focus=[2, 3, 5, 2], hi=6, floor_bias=0.4)
    # boxes inside boxes: one ACTUATE removes exactly one wrapper
    for inner in objs[:25]:
        for depth in (2, 3):
            b = inner
            for _ in range(depth):
                b = (BOX_T, 0, 0, b)
            for o in range(4):
                g = tuple(tuple(F for _ in range(3)) for _ in range(3))
                for nb in ((0, 1), (1, 0), (1, 2), (2, 1)):
                    g = gen.set_cell(g, nb, b)
                yield ([5], (g, (1, 1), o, gen.NONE), 6, 'nested-box')
                yield ([0, 1, 4, 5, 2], (g, (1, 1), o, gen.NONE), 6, 'nested-box')
    yield from tsuite.wrap_cases(ctx, n // 2, focus=[2, 3, 5])
    # long-ish histories on key / obstacle grids are covered by compositions of up to 5 functions here and by C01's trajectories


def run(ctx):
    ctx.rule = ('corpus, the full pick-and-drop table (every object in front x held items x headings), random states with every function and '
                'random compositions; obstacles with a colour of their own (instances of a user subclass / individually coloured); oracle counts the inventory on the real step; non-trivial = the step changed the state or raised')
    tsuite.run_cases(ctx, cases(ctx), oracle)
    tsuite.run_histories(ctx, 150 if ctx.tier == 'quick' else 1500, oracle)
    coloured_obstacles(ctx)


def coloured_obstacles(ctx):
    """every obstacle is an individual: obstacles whose colour is a property of the INSTANCE (a user subclass of MovingObstacle, or a colour
    given to one obstacle) keep it when the dynamics move them -- the obstacle that arrives is the obstacle that left"""
    import numpy as np
    from gym_gridverse.envs import transition_functions as tf
    from gym_gridverse.grid_object import Color
    from gym_gridverse.utils.fast_copy import fast_copy
    r = ctx.rng
    for k in range(80 if ctx.tier == 'quick' else 800):
        h, w = r.randint(2, 5), r.randint(2, 5)
        cg = tuple(tuple(r.choice([gen.FLOOR, gen.FLOOR, (OBST_T, 0, 0, None), gen.WALL] if (y, x) != (0, 0) else [gen.FLOOR]) for x in range(w)) for y in range(h))
        user = r.random() < 0.5
        s = wire.mkstate((cg, (0, 0), r.randrange(4), gen.NONE), sub=OBST_T if user else None)
        try:
            for pos in s.grid.area.positions():
                if wire.cobj(s.grid[pos])[0] == OBST_T:
                    s.grid[pos].color = r.choice(list(Color))
        except (AttributeError, TypeError):
            ctx.count('coloured obstacles', 'colour of an obstacle instance cannot be set: probe skipped')
            continue
        if not user and r.random() < 0.5:
            s = fast_copy(s)         # (the harness' run-time subclasses cannot be pickled)
        before = wire.cstate(s)
        names = r.choice([[3], [3], [0, 1, 3], [3, 6, 2]])
        rng = np.random.default_rng(r.randrange(1 << 30))
        try:
            for n in names:
                tf.transition_function_registry[impl.TNAMES[n]](s, impl.ACTS[r.randrange(8)], rng=rng)
        except Exception as e:  # noqa: BLE001
            ctx.violation(f'a step on a grid with coloured obstacles raised {type(e).__name__}', {'state': gen.show_state(before), 'functions': [impl.TNAMES[n] for n in names]})
            continue
        after = wire.cstate(s)
        ctx.case(('coloured-obstacles', before, tuple(names), k), after != before, None)
        ctx.count('coloured obstacles', 'moved' if after != before else 'unchanged')
        if inventory(before) != inventory(after):
            ctx.violation(f'a step changed the inventory of individually coloured obstacles: {dict(inventory(before) - inventory(after))} lost, {dict(inventory(after) - inventory(before))} created',
                          {'state': gen.show_state(before), 'after': gen.show_state(after), 'functions': [impl.TNAMES[n] for n in names]})


def replay(ctx, case):
    if 'wire_state' not in case:
        return run(ctx)
    names, cs, act = tsuite.from_case(case)
    tsuite.run_cases(ctx, [(names, cs, act, 'replay')], oracle)


if __name__ == '__main__':
    sys.exit(core.main('C09', run, replay))
