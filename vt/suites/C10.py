"""C10 -- doors, keys and boxes respond only to a faced ACTUATE.  Full table: statuses x door colours x held items x
relative poses x actions, through every function and random compositions; oracle = the documented table + frame."""
import itertools as itt
import sys

import vt.boot  # noqa: F401

from vt import comp, core, gen, impl, tsuite, wire

DOOR_T, BOX_T, KEY_T = gen.TY['Door'], gen.TY['Box'], gen.TY['Key']
OPEN, CLOSED, LOCKED = 0, 1, 2


def front(cs):
    g, (y, x), o, held = cs
    dy, dx = {0: (-1, 0), 1: (1, 0), 2: (0, -1), 3: (0, 1)}[o]
    return (y + dy, x + dx)


def pose_fixed_until(names, fn, cs):
    """under ACTUATE the pose cannot change before function `fn` of the chain runs: move / turn / pickndrop / obstacles / actuate_* never move the
    agent under ACTUATE; teleport (6) might, if the agent stands on a telepod"""
    g, p, o, held = cs
    if fn not in names:
        return False
    before = names[:names.index(fn)]
    return 6 not in before or g[p[0]][p[1]][0] != gen.TY['Telepod']


def oracle(ctx, names, cs, act, kind, val, log, tape):
    case = tsuite.case_dict(names, cs, act)
    if kind != 'ok':
        ctx.violation(f'transition raised {val}', case)
        return
    g, p, o, held = cs
    g2, p2, o2, held2 = val
    h, w = gen.shape_of(g)
    f = front(cs)
    single = names[0] if len(names) == 1 else None
    for y in range(h):
        for x in range(w):
            c, c2 = g[y][x], g2[y][x]
            if c[0] == DOOR_T:
                if c2[0] != DOOR_T or c2[2] != c[2]:
                    ctx.violation(f'door at {(y, x)} disappeared or was recoloured', case)
                    continue
                if c2[1] != c[1]:
                    # status changed: only by actuate_door, under ACTUATE, only to OPEN, locked only with the matching key
                    has_key = held[0] == KEY_T and held[2] == c[2]
                    legit = (4 in names and act == 6 and c2[1] == OPEN and c[1] != OPEN and (c[1] == CLOSED or has_key))
                    if single is not None or pose_fixed_until(names, 4, cs):
                        legit = legit and (y, x) == f
                    if not legit:
                        ctx.violation(f'door at {(y, x)} changed status {c[1]} -> {c2[1]} illegitimately (faced cell: {f})', case)
                elif (single == 4 or (single is None and pose_fixed_until(names, 4, cs))) and act == 6 and (y, x) == f:
                    has_key = held[0] == KEY_T and held[2] == c[2]
                    should_open = c[1] == CLOSED or (c[1] == LOCKED and has_key)
                    if should_open:
                        ctx.violation(f'faced door at {(y, x)} (status {c[1]}) did not open', case)
            if c[0] == BOX_T and c2 != c:
                legit = 5 in names and act == 6 and (c2 == c[3] or (
                    # in a composition, an obstacle may move onto the floor the opened box left behind, within the same step
                    3 in names and c[3] == gen.FLOOR and c2[0] == gen.TY['MovingObstacle']))
                if single is not None or pose_fixed_until(names, 5, cs):
                    legit = legit and (y, x) == f
                if not legit:
                    ctx.violation(f'box at {(y, x)} changed without being actuated while faced (faced cell: {f})', case)
            if (single == 5 or (single is None and pose_fixed_until(names, 5, cs) and 3 not in names)) and act == 6 and (y, x) == f and c[0] == BOX_T and c2 != c[3]:
                ctx.violation('faced box was not replaced by its content', case)
    if (single in (4, 5) or act != 7) and held2 != held:
        ctx.violation('held item changed (keys must not be consumed)', case)


def cases(ctx):
    r = ctx.rng
    yield from tsuite.corpus()
    F = gen.FLOOR
    helds = [gen.NONE] + [(KEY_T, 0, c, None) for c in gen.COLORS] + [gen.WALL, (gen.TY['Exit'], 0, 4, None), (DOOR_T, 0, 4, None)]
    # the full table: door status x door colour x held item x relative pose (facing / beside / behind) x all 8 actions
    for st in range(3):
        for col in gen.COLORS:
            door = (DOOR_T, st, col, None)
            for held in helds:
                for o in range(4):
                    g = gen.set_cell(tuple(tuple(F for _ in range(3)) for _ in range(3)), (0, 1), door)
                    for act in range(8):
                        yield ([4], (g, (1, 1), o, held), act, 'door-table')
                    yield ([r.randrange(7)], (g, (1, 1), o, held), 6, 'door-other-function')
    # boxes: every content, every relative pose, all actions
    for content in gen.all_objects(depth=1)[:40]:
        box = (BOX_T, 0, 0, content)
        for o in range(4):
            g = gen.set_cell(tuple(tuple(F for _ in range(3)) for _ in range(3)), (1, 2), box)
            for act in range(8):
                yield ([5], (g, (1, 1), o, gen.NONE), act, 'box-table')
    for inner in gen.all_objects(depth=0)[:20]:
        nested = (BOX_T, 0, 0, (BOX_T, 0, 0, inner))
        for o in range(4):
            g = gen.set_cell(tuple(tuple(F for _ in range(3)) for _ in range(3)), (1, 2), nested)
            yield ([5], (g, (1, 1), o, gen.NONE), 6, 'nested-box')
    n = 600 if ctx.tier == 'quick' else 6000
    types = [gen.TY[t] for t in ('Floor', 'Wall', 'Door', 'Key', 'Box', 'Exit', 'MovingObstacle')]
    yield from tsuite.random_cases(ctx, n, focus=[4, 5, 4, 2], types=types, hi=5, floor_bias=0.35)
    yield from tsuite.wrap_cases(ctx, n, focus=[4, 5])


def two_episodes(ctx):
    """doors and boxes respond ONLY to a faced ACTUATE -- also across episodes: two initial states produced by separate calls of a reset
    function are separate worlds; opening the door of one (honestly: key in hand, facing it, ACTUATE, applied in place with the registered
    transition function) leaves the door of the other exactly as it was"""
    import numpy as np
    from gym_gridverse.action import Action
    from gym_gridverse.envs import transition_functions as tf
    from gym_gridverse.geometry import Orientation, Position
    from gym_gridverse.grid_object import Door, Key
    r = ctx.rng
    for k in range(6 if ctx.tier == 'quick' else 60):
        d = {'name': 'keydoor', 'shape': (r.randint(4, 7), r.randint(5, 8))}
        f = comp.build_reset(d)
        a, b = f(rng=np.random.default_rng(r.randrange(1 << 30))), f(rng=np.random.default_rng(r.randrange(1 << 30)))
        before_b = wire.cstate(b)
        doors = [(y, x) for y, row in enumerate(a.grid.objects) for x, o in enumerate(row) if isinstance(o, Door)]
        ctx.case(('two-episodes', d['shape'], k), True, None)
        ctx.count('two episodes', 'keydoor')
        if not doors:
            continue
        (y, x) = doors[0]
        door = a.grid[y, x]
        a.agent.position, a.agent.orientation, a.agent.grid_object = Position(y, x - 1), Orientation.R, Key(door.color)
        tf.transition_function_registry['actuate_door'](a, Action.ACTUATE, rng=np.random.default_rng(0))
        if a.grid[y, x].is_open is not True:
            ctx.violation('a locked door, faced with the matching key in hand, did not open on ACTUATE', {'reset': d, 'state': gen.show_state(wire.cstate(a))})
        if wire.cstate(b) != before_b:
            ctx.violation('opening the door of one initial state changed ANOTHER initial state produced by a separate reset call (it was never actuated there)',
                          {'reset': d, 'other_before': gen.show_state(before_b), 'other_after': gen.show_state(wire.cstate(b))})


def functional_interface(ctx):
    """a door changes status only in the state in which it was ACTUATED: the step is made through the copying functional interface of an
    environment; the state the step was taken FROM still has its door as it was, and steps from it that do not actuate leave it so"""
    from vt.suites import C03
    r = ctx.rng
    DOOR = gen.TY['Door']
    for k in range(120 if ctx.tier == 'quick' else 1200):
        cs = C03.door_on_the_way(r) if r.random() < 0.6 else tsuite.interactive_world(r)
        doors = {(y, x): c for y, row in enumerate(cs[0]) for x, c in enumerate(row) if c[0] == DOOR}
        if not doors:
            continue
        label, env, desc = C03.interactive_env(gen.shape_of(cs[0]), r)
        s = wire.mkstate(cs)
        try:
            env.set_seed(r.randrange(1 << 30))
            s2, _, _ = env.functional_step(s, impl.ACTS[6])
            after_actuate = wire.cstate(s)
            s3, _, _ = env.functional_step(s, impl.ACTS[r.choice([4, 5, 0])])        # a turn or a move FROM THE SAME state
            third = wire.cstate(s3)
        except Exception:  # noqa: BLE001  (raising steps are C01's business)
            continue
        ctx.case(('functional-door', cs), wire.cstate(s2) != cs, None)
        ctx.count('functional interface', 'ACTUATE, then another step from the same state')
        case = {'state': gen.show_state(cs), 'wire_state': cs}
        for (y, x), c in doors.items():
            if after_actuate[0][y][x] != c:
                ctx.violation(f'after functional_step(state, ACTUATE) the door at {(y, x)} of the state the step was taken FROM has status {after_actuate[0][y][x][1]} instead of {c[1]}', case)
                return
            if third[0][y][x][0] == DOOR and third[0][y][x] != c:
                ctx.violation(f'a step that does not actuate returns the door at {(y, x)} with status {third[0][y][x][1]} instead of {c[1]} (it was opened in another state)', case)
                return


def run(ctx):
    ctx.rule = ('corpus; full door table 3 statuses x 5 colours x 9 held items x 4 headings x 8 actions; box table; random door/key/box '
                'states through every function and compositions; non-trivial = the step changed the state or raised')
    tsuite.run_cases(ctx, cases(ctx), oracle)
    tsuite.run_histories(ctx, 150 if ctx.tier == 'quick' else 1500, oracle)
    two_episodes(ctx)
    functional_interface(ctx)


def replay(ctx, case):
    if 'wire_state' not in case:
        return run(ctx)
    names, cs, act = tsuite.from_case(case)
    tsuite.run_cases(ctx, [(names, cs, act, 'replay')], oracle)


if __name__ == '__main__':
    sys.exit(core.main('C10', run, replay))
