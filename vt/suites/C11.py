"""C11 -- stochastic dynamics, every random outcome.  Recorded draws on random layouts (T2) and, for small layouts,
the COMPLETE outcome tree of the real code (ScriptedRng DFS) compared with the model's `leaves`; tree oracle = the rules."""
import itertools as itt
import sys

import vt.boot  # noqa: F401

from vt import core, gen, impl, tsuite, wire

OB, FL, TP = gen.TY['MovingObstacle'], gen.TY['Floor'], gen.TY['Telepod']
OBST = (OB, 0, 0, None)


def ob_positions(g):
    return [(y, x) for y, row in enumerate(g) for x, c in enumerate(row) if c[0] == OB]


def matchable(src, dst):
    """is there a bijection src -> dst moving every obstacle by at most one cell (4-neighbourhood)?"""
    if len(src) != len(dst):
        return False
    dst = list(dst)
    match = {}

    def aug(i, seen):
        for j, d in enumerate(dst):
            if abs(src[i][0] - d[0]) + abs(src[i][1] - d[1]) <= 1 and j not in seen:
                seen.add(j)
                if j not in match or aug(match[j], seen):
                    match[j] = i
                    return True
        return False

    return all(aug(i, set()) for i in range(len(src)))


def oracle(ctx, names, cs, act, kind, val, log, tape):
    case = tsuite.case_dict(names, cs, act)
    if kind != 'ok':
        ctx.violation(f'transition raised {val}', case)
        return
    g, p, o, held = cs
    g2, p2, o2, held2 = val
    h, w = gen.shape_of(g)
    if names == [3]:  # move_obstacles
        if (p2, o2, held2) != (p, o, held):
            ctx.violation('move_obstacles touched the agent', case)
        a, b = ob_positions(g), ob_positions(g2)
        if not matchable(a, b):
            ctx.violation(f'obstacles lost, duplicated or moved further than one cell: {a} -> {b}', case)
        for y in range(h):
            for x in range(w):
                c, c2 = g[y][x], g2[y][x]
                if c[0] not in (OB, FL) and c2 != c:
                    ctx.violation(f'move_obstacles changed the non-floor cell {(y, x)}', case)
                if c2[0] == OB and c[0] not in (OB, FL):
                    ctx.violation(f'an obstacle was placed on a non-floor cell {(y, x)}', case)
        if sum(1 for row in g for c in row if c[0] == FL) != sum(1 for row in g2 for c in row if c[0] == FL):
            ctx.violation('number of floor cells changed', case)
    if names == [6]:  # teleport
        if g2 != g or o2 != o or held2 != held:
            ctx.violation('teleport changed something other than the position', case)
        here = g[p[0]][p[1]] if 0 <= p[0] < h and 0 <= p[1] < w else None
        partners = [(y, x) for y in range(h) for x in range(w)
                    if (y, x) != p and g[y][x][0] == TP and here is not None and here[0] == TP and g[y][x][2] == here[2]]
        if partners:
            if p2 not in partners:
                ctx.violation(f'teleport sent the agent to {p2}, not one of the partners {partners}', case)
        elif p2 != p or log:
            ctx.violation('teleport displaced the agent (or drew a number) without a same-coloured partner', case)


def tree_oracle(ctx, names, cs, act, outs):
    """the rules on the complete outcome set of the real code"""
    case = tsuite.case_dict(names, cs, act)
    g, p, o, held = cs
    h, w = gen.shape_of(g)
    for k, v, lg in outs:
        oracle(ctx, names, cs, act, k, v, lg, None)
    outs = [(k, v) for k, v, _ in outs]
    if names == [3]:
        obs = ob_positions(g)
        if len(obs) >= 1:
            # the first obstacle (row-major) takes its turn on the initial grid: EVERY free neighbour must be possible, and staying
            # is possible only if it has none
            y, x = obs[0]
            free = [(y + dy, x + dx) for dy, dx in ((-1, 0), (0, 1), (1, 0), (0, -1))
                    if 0 <= y + dy < h and 0 <= x + dx < w and g[y + dy][x + dx][0] == FL]
            if len(obs) == 1:
                dests = {tuple(ob_positions(v[0])[0]) for k, v in outs if k == 'ok'}
                exp = set(free) if free else {(y, x)}
                if dests != exp:
                    ctx.violation(f'single obstacle at {(y, x)}: possible destinations {sorted(dests)}, expected exactly {sorted(exp)}', case)
    if names == [6]:
        here = g[p[0]][p[1]]
        partners = {(yy, xx) for yy in range(h) for xx in range(w)
                    if (yy, xx) != p and g[yy][xx][0] == TP and here[0] == TP and g[yy][xx][2] == here[2]}
        dests = {v[1] for k, v in outs if k == 'ok'}
        exp = partners if partners else {p}
        if dests != exp:
            ctx.violation(f'teleport destinations {sorted(dests)}, expected exactly {sorted(exp)}', case)


def small_layouts(ctx):
    """all layouts of walls / obstacles on small grids (bounded count), agent in a corner"""
    r = ctx.rng
    shapes = [(1, 3), (2, 2), (2, 3), (3, 3)] if ctx.tier == 'quick' else [(1, 3), (1, 4), (2, 2), (2, 3), (3, 3), (3, 4)]
    for h, w in shapes:
        cells = [(y, x) for y in range(h) for x in range(w)]
        for nob in (1, 2, 3):
            combos = list(itt.combinations(cells, nob))
            if len(combos) > (60 if ctx.tier == 'quick' else 400):
                combos = r.sample(combos, 60 if ctx.tier == 'quick' else 400)
            for obs in combos:
                g = [[gen.FLOOR for _ in range(w)] for _ in range(h)]
                for (y, x) in obs:
                    g[y][x] = OBST
                # sprinkle a wall / exit so that "non-floor cells" exist
                rest = [c for c in cells if c not in obs]
                if rest and r.random() < 0.6:
                    y, x = r.choice(rest)
                    g[y][x] = r.choice([gen.WALL, (gen.TY['Exit'], 0, 0, None), (gen.TY['Key'], 0, 1, None)])
                cg = tuple(tuple(row) for row in g)
                yield ([3], (cg, (0, 0), 3, gen.NONE), r.randrange(8))
    # telepods: all placements of 1..4 telepods of two colours (NONE and another) on small grids, agent on the first
    for h, w in ((1, 3), (2, 2), (2, 3)):
        cells = [(y, x) for y in range(h) for x in range(w)]
        for k in (1, 2, 3, 4):
            for pods in itt.combinations(cells, k):
                for cols in itt.product((0, 2), repeat=k):          # NONE is a colour like any other
                    g = [[gen.FLOOR for _ in range(w)] for _ in range(h)]
                    for (y, x), c in zip(pods, cols):
                        g[y][x] = (TP, 0, c, None)
                    cg = tuple(tuple(row) for row in g)
                    yield ([6], (cg, pods[0], 0, gen.NONE), r.randrange(8))


def state_fix(r, cs):
    """make obstacle / telepod situations frequent"""
    g, p, o, held = cs
    h, w = gen.shape_of(g)
    k = r.random()
    if k < 0.45:
        for _ in range(r.randint(1, 4)):
            g = gen.set_cell(g, (r.randrange(h), r.randrange(w)), OBST)
    elif k < 0.9:
        col = r.choice([0, 0, 1, 2])
        other = r.choice([c for c in (0, 1, 2) if c != col])
        g = gen.set_cell(g, p, (TP, 0, col, None))
        for _ in range(r.randint(0, 3)):
            q = (r.randrange(h), r.randrange(w))
            g = gen.set_cell(g, q, (TP, 0, r.choice([col, col, other]), None))
    return (g, p, o, held)


def history_oracle(ctx, names, cs, act, kind, val, log, tape):
    """under the full chain, after a history (same python objects carried along, public grid edits in between): wherever the agent ends,
    it is its own cell, a neighbouring cell, or a telepod whose colour is the colour of a telepod it stood on / stepped onto"""
    if kind != 'ok':
        return
    g, p, o, held = cs
    g2, p2, o2, held2 = val
    h, w = gen.shape_of(g2)
    around = [p] + [(p[0] + dy, p[1] + dx) for dy, dx in ((-1, 0), (1, 0), (0, -1), (0, 1)) if 0 <= p[0] + dy < h and 0 <= p[1] + dx < w]
    if p2 in around:
        return
    case = tsuite.case_dict(names, cs, act)
    if g2[p2[0]][p2[1]][0] != TP:
        ctx.violation(f'the agent was sent to {p2}, which holds no telepod', case)
    elif not any(g2[c[0]][c[1]][0] == TP and g2[c[0]][c[1]][2] == g2[p2[0]][p2[1]][2] for c in around):
        ctx.violation(f'the agent was sent to the telepod at {p2} without having been on a telepod of that colour', case)


def cases(ctx):
    yield from tsuite.corpus()
    n = 800 if ctx.tier == 'quick' else 8000
    yield from tsuite.random_cases(ctx, n, focus=[3, 6], hi=6, floor_bias=0.6, state_fix=state_fix)
    yield from tsuite.wrap_cases(ctx, n // 4, focus=[3, 6])


def run(ctx):
    ctx.rule = ('corpus; random obstacle / telepod layouts with recorded draws (result + draw log vs model); COMPLETE outcome trees of the real '
                'code for all obstacle layouts (1-3 obstacles) and telepod layouts on grids up to 3x3, compared with the model\'s leaves and '
                'checked against the rules (each free neighbour possible; stay only when none); histories of steps on ONE carried state object with public grid edits (swap / assign, telepods preferred) in between; non-trivial = a draw happened / tree has >1 leaf')
    tsuite.run_cases(ctx, cases(ctx), oracle, nontrivial=lambda names, cs, act, kind, val: kind != 'ok' or val != cs)
    tsuite.run_trees(ctx, small_layouts(ctx), tree_oracle)
    tsuite.run_histories(ctx, 250 if ctx.tier == 'quick' else 2500, history_oracle)
    ctx.exhaustive = False
    ctx.notes['exhaustive_part'] = 'complete outcome trees (all resolutions of every random choice) for the small layouts listed in rule'


def replay(ctx, case):
    if 'wire_state' not in case:
        return run(ctx)
    names, cs, act = tsuite.from_case(case)
    tsuite.run_cases(ctx, [(names, cs, act, 'replay')], oracle)
    if names in ([3], [6]):
        tsuite.run_trees(ctx, [(names, cs, act)], tree_oracle)


if __name__ == '__main__':
    sys.exit(core.main('C11', run, replay))
