"""C12 -- rewards and termination mean what they say, and agree.  T2: every component on generated (s, a, s') --
s' produced by the real dynamics and arbitrary -- with random float parameters; the model returns WHICH parameter /
0.0 / parameter x distance, evaluated with python's own arithmetic and compared exactly.  Oracle: the documented
meaning of each component, stated independently."""
import collections
import math
import sys

import vt.boot  # noqa: F401

from vt import comp, core, gen, impl, tsuite, wire

TY = gen.TY
VEC = {0: (-1, 0), 1: (1, 0), 2: (0, -1), 3: (0, 1)}
MUL = {(0, 0): 0, (0, 1): 1, (0, 2): 2, (0, 3): 3, (1, 0): 1, (1, 1): 0, (1, 2): 3, (1, 3): 2,
       (2, 0): 2, (2, 1): 3, (2, 2): 1, (2, 3): 0, (3, 0): 3, (3, 1): 2, (3, 2): 0, (3, 3): 1}


def cell(g, p):
    h, w = gen.shape_of(g)
    return g[p[0]][p[1]] if 0 <= p[0] < h and 0 <= p[1] < w else None


def positions_of(g, ty):
    return [(y, x) for y, row in enumerate(g) for x, c in enumerate(row) if c[0] == ty]


def bfs(g, src, dst):
    h, w = gen.shape_of(g)
    dist = {src: 0}
    q = collections.deque([src])
    while q:
        y, x = q.popleft()
        for dy, dx in ((-1, 0), (1, 0), (0, -1), (0, 1)):
            n = (y + dy, x + dx)
            if 0 <= n[0] < h and 0 <= n[1] < w and n not in dist and not wire.mkobj(g[n[0]][n[1]]).blocks_movement:
                dist[n] = dist[(y, x)] + 1
                q.append(n)
    return dist.get(dst, math.inf)


def expected_reward(d, s, a, s2):
    """the documented value, or None when the documentation does not determine it (precondition violated)"""
    g, p, o, held = s
    g2, p2, o2, held2 = s2
    n, P = d['name'], d.get('params')
    here2 = cell(g2, p2)
    if here2 is None or cell(g, p) is None:
        return None
    if n == 'living_reward':
        return P[0]
    if n == 'overlap':
        return P[0] if here2[0] == d['ty'] else P[1]
    if n == 'reach_exit':
        return P[0] if here2[0] == TY['Exit'] else P[1]
    if n == 'bump_moving_obstacle':
        return P[0] if here2[0] == TY['MovingObstacle'] else 0.0
    if n == 'bump_into_wall':
        if a >= 4:
            t = p
        else:
            dd = MUL[(o, a)]
            t = (p[0] + VEC[dd][0], p[1] + VEC[dd][1])
        c = cell(g, t)
        return P[0] if c is not None and c[0] == TY['Wall'] else 0.0
    if n in ('getting_closer', 'getting_closer_shortest_path', 'proportional_to_distance'):
        a1, a2 = positions_of(g, d['ty']), positions_of(g2, d['ty'])
        if n == 'proportional_to_distance':
            if len(a2) != 1:
                return None
            dy, dx = p2[0] - a2[0][0], p2[1] - a2[0][1]
            return P[0] * ((abs(dy) + abs(dx)) if d['d'] == 'manhattan' else math.sqrt(dy * dy + dx * dx))
        if len(a1) != 1 or len(a2) != 1:
            return None
        if n == 'getting_closer':
            def dist(q, t):
                dy, dx = q[0] - t[0], q[1] - t[1]
                return abs(dy) + abs(dx) if d['d'] == 'manhattan' else dy * dy + dx * dx
            d1, d2 = dist(p, a1[0]), dist(p2, a2[0])
        else:
            d1, d2 = bfs(g, a1[0], p), bfs(g2, a2[0], p2)
        return P[0] if d2 < d1 else P[1] if d2 > d1 else 0.0
    if n == 'pickndrop':
        has, has2 = held[0] == d['ty'], held2[0] == d['ty']
        return P[0] if not has and has2 else P[1] if has and not has2 else 0.0
    if n == 'actuate_door':
        f = (p[0] + VEC[o][0], p[1] + VEC[o][1])
        c, c2 = cell(g, f), cell(g2, f)
        if a != 6 or c is None or c[0] != TY['Door']:
            return 0.0
        if c2 is None:
            return None
        if c2[0] != TY['Door']:
            return 0.0
        return P[0] if c[1] != 0 and c2[1] == 0 else P[1] if c[1] == 0 and c2[1] != 0 else 0.0
    if n == 'reach_exit_memory':
        beacons = [c for row in g2 for c in row if c[0] == TY['Beacon']]
        if not beacons:
            return None
        if len({b[2] for b in beacons}) != 1:
            return None  # "the beacon's colour" is only defined when all beacons agree
        if here2[0] != TY['Exit']:
            return 0.0
        return P[0] if here2[2] == beacons[0][2] else P[1]
    return None


def expected_term(d, s, a, s2):
    g, p, o, held = s
    g2, p2, o2, held2 = s2
    n = d['name']
    here2 = cell(g2, p2)
    if here2 is None or cell(g, p) is None:
        return None
    if n == 'overlap':
        return here2[0] == d['ty']
    if n == 'reach_exit':
        return here2[0] == TY['Exit']
    if n == 'bump_moving_obstacle':
        return here2[0] == TY['MovingObstacle']
    if n == 'bump_into_wall':
        t = p if a >= 4 else (p[0] + VEC[MUL[(o, a)]][0], p[1] + VEC[MUL[(o, a)]][1])
        c = cell(g, t)
        return c is not None and c[0] == TY['Wall']
    vals = [expected_term(x, s, a, s2) for x in d['parts']]
    if None in vals:
        return None
    return any(vals) if n == 'reduce_any' else all(vals)


def call(f, s, a, s2):
    try:
        return ('ok', f(wire.mkstate(s), impl.ACTS[a], wire.mkstate(s2)))
    except Exception as e:  # noqa: BLE001
        return ('err', wire.EXN_NAMES.get(wire.exn_code(e), type(e).__name__))


def triples(ctx):
    r = ctx.rng
    n = 1200 if ctx.tier == 'quick' else 6000
    F = gen.FLOOR
    g3 = tuple(tuple(F for _ in range(3)) for _ in range(3))
    KEY = (TY['Key'], 0, 4, None)
    # corpus: D4 -- ACTUATE facing each edge
    for p, o in (((2, 1), 1), ((1, 2), 3), ((0, 1), 0), ((1, 0), 2)):
        s = (gen.set_cell(g3, (0, 1), (TY['Door'], 1, 4, None)), p, o, KEY)
        yield (s, 6, s, 'corpus')
    types = [TY[t] for t in ('Floor', 'Wall', 'Exit', 'Door', 'Key', 'MovingObstacle', 'Beacon', 'Box', 'Telepod')]
    for _ in range(n):
        s = gen.rand_state(r, types=types, colors=[0, 1, 2, 4], hi=5, floor_bias=0.55)
        g, p, o, held = s
        h, w = gen.shape_of(g)
        k = r.random()
        # make "unique object" situations frequent: exactly one Exit / Beacon
        if k < 0.6:
            g = tuple(tuple(F if c[0] in (TY['Exit'], TY['Beacon']) else c for c in row) for row in g)
            g = gen.set_cell(g, (r.randrange(h), r.randrange(w)), (TY['Exit'], 0, r.choice([0, 1, 2]), None))
            if r.random() < 0.6:
                q = (r.randrange(h), r.randrange(w))
                if g[q[0]][q[1]][0] != TY['Exit']:
                    g = gen.set_cell(g, q, (TY['Beacon'], 0, r.choice([1, 2]), None))
            s = (g, p, o, held)
        a = r.randrange(8)
        kk = r.random()
        if kk < 0.05:
            # the agent on the top / left edge acting towards the outside, with walls, doors, an exit ... on the OPPOSITE rim: nothing beyond the
            # edge is a wall to bump into, a door to open, an object to pick
            edge = r.choice(['top', 'left'])
            fill = lambda: r.choice([gen.WALL, gen.WALL, (TY['Door'], r.choice([1, 2]), 4, None), (TY['Key'], 0, 4, None), (TY['Exit'], 0, 0, None), (TY['MovingObstacle'], 0, 0, None)])  # noqa: E731
            if edge == 'top':
                p = (0, r.randrange(w))
                g = tuple(tuple(fill() if y == h - 1 and h > 1 else c for c in row) for y, row in enumerate(g))
                o, a = r.choice([(0, 0), (1, 1), (3, 2), (2, 3), (0, 6), (0, 7)])       # heading, action: the move / the front points up
            else:
                p = (r.randrange(h), 0)
                g = tuple(tuple(fill() if x == w - 1 and w > 1 else c for x, c in enumerate(row)) for row in g)
                o, a = r.choice([(2, 0), (3, 1), (0, 2), (1, 3), (2, 6), (2, 7)])
            if g[p[0]][p[1]][0] in (TY['Wall'], TY['Box']):
                g = gen.set_cell(g, p, F)
            s = (g, p, o, held)
            kind, val, _, _ = impl.run_transition([0, 1, 4, 2], s, a, True, seed=r.randrange(1 << 30))
            s2 = val if kind == 'ok' else s
            origin = 'edge-outward'
        elif kk < 0.6:
            names = [r.randrange(7) for _ in range(r.randint(1, 4))]
            kind, val, _, _ = impl.run_transition(names, s, a, True, seed=r.randrange(1 << 30))
            s2 = val if kind == 'ok' else s
            origin = 'real-dynamics'
        elif kk < 0.7:
            # arbitrary next state of the same shape
            g2 = gen.rand_grid(r, h, w, types, [0, 1, 2, 4], 0.5)
            if r.random() < 0.7:
                g2 = gen.set_cell(g2, (r.randrange(h), r.randrange(w)), (TY['Exit'], 0, r.choice([0, 1, 2]), None))
            p2, o2 = gen.rand_pose(r, h, w)
            s2 = (g2, p2, o2, gen.rand_held(r, types, [0, 1, 2, 4]))
            origin = 'arbitrary'
        elif kk < 0.86:
            # the walkable layout changes between s and s' (a door opens / shuts, a wall appears / vanishes): distances must be measured
            # on each state's own layout
            if sum(1 for row in g for c in row if c[0] == TY['Exit']) != 1:
                g = tuple(tuple(F if c[0] == TY['Exit'] else c for c in row) for row in g)
                g = gen.set_cell(g, (r.randrange(h), r.randrange(w)), (TY['Exit'], 0, 0, None))
                s = (g, p, o, held)
            cells = [(y, x) for y in range(h) for x in range(w) if (y, x) != p and g[y][x][0] != TY['Exit']]
            g2 = g
            if cells:
                q = r.choice(cells)
                c = g[q[0]][q[1]]
                blocking = c[0] in (TY['Wall'], TY['Box']) or (c[0] == TY['Door'] and c[1] != 0)
                new = r.choice([F, (TY['Door'], 0, 4, None)]) if blocking else r.choice([gen.WALL, (TY['Door'], r.choice([1, 2]), 4, None)])
                g2 = gen.set_cell(g, q, new)
            nb = [(p[0] + dy, p[1] + dx) for dy, dx in ((0, 0), (0, 0), (1, 0), (-1, 0), (0, 1), (0, -1)) if 0 <= p[0] + dy < h and 0 <= p[1] + dx < w]
            s2 = (g2, r.choice(nb), o, held)
            origin = 'layout-change'
        elif kk < 0.885:
            # a serpentine maze: walking distances far above height + width (no bound other than the number of cells is valid)
            mh, mw = r.choice([(7, 7), (7, 5), (9, 6)])
            rows = []
            for y in range(mh):
                if y % 2 == 0:
                    rows.append([F] * mw)
                else:
                    gap = mw - 1 if (y // 2) % 2 == 0 else 0
                    rows.append([F if x == gap else gen.WALL for x in range(mw)])
            path = []
            for y in range(0, mh, 2):
                xs = list(range(mw)) if (y // 2) % 2 == 0 else list(range(mw - 1, -1, -1))
                path += [(y, x) for x in xs]
                if y + 1 < mh:
                    path.append((y + 1, xs[-1]))
            g = tuple(tuple(row) for row in rows)
            end = path[-1] if r.random() < 0.7 else path[0]
            g = gen.set_cell(g, end, (TY['Exit'], 0, 0, None))
            i = r.randrange(1, len(path) - 1)
            j = i + r.choice([-1, 1, 0])
            h, w = mh, mw
            s = (g, path[i], r.randrange(4), gen.NONE)
            s2 = (g, path[j], r.randrange(4), gen.NONE)
            if end in (path[i], path[j]):
                s2 = s
            origin = 'maze'
        elif kk < 0.915:
            # several exits, two or more of them in the beacon's colour: ANY exit of that colour is a good one
            bc = r.choice([1, 2, 3])
            g = tuple(tuple(F if c[0] in (TY['Exit'], TY['Beacon']) else c for c in row) for row in g)
            cells_ = [(y, x) for y in range(h) for x in range(w)]
            r.shuffle(cells_)
            picks = cells_[:min(len(cells_), 4)]
            if len(picks) >= 3:
                g = gen.set_cell(g, picks[0], (TY['Beacon'], 0, bc, None))
                for q in picks[1:3]:
                    g = gen.set_cell(g, q, (TY['Exit'], 0, bc, None))
                if len(picks) > 3:
                    g = gen.set_cell(g, picks[3], (TY['Exit'], 0, bc % 3 + 1, None))
                s = (g, p if cell(g, p) is not None else picks[0], o, held)
                s2 = (g, r.choice(picks[1:]), o, held)
            else:
                s2 = s
            origin = 'multi-exit'
        elif kk < 0.945:
            # the agent faces a door and actuates; in s' that door may have changed status, the agent's pose may have changed too (a
            # composition with teleport), and other doors stand around: the reward is about THE door that was in front in s
            dirs = {0: (-1, 0), 1: (1, 0), 2: (0, -1), 3: (0, 1)}
            fr = (p[0] + dirs[o][0], p[1] + dirs[o][1])
            if not (0 <= fr[0] < h and 0 <= fr[1] < w):
                o = next((d for d in range(4) if 0 <= p[0] + dirs[d][0] < h and 0 <= p[1] + dirs[d][1] < w), o)
                fr = (p[0] + dirs[o][0], p[1] + dirs[o][1])
            if 0 <= fr[0] < h and 0 <= fr[1] < w:
                col = r.choice([1, 2, 4])
                g = gen.set_cell(g, fr, (TY['Door'], r.randrange(3), col, None))
                for _ in range(r.randint(0, 3)):
                    q = (r.randrange(h), r.randrange(w))
                    if q != fr and q != p:
                        g = gen.set_cell(g, q, (TY['Door'], r.randrange(3), r.choice([1, 2, 4]), None))
                g2 = gen.set_cell(g, fr, (TY['Door'], r.randrange(3), col, None)) if r.random() < 0.8 else g
                p2, o2 = (p, o) if r.random() < 0.4 else gen.rand_pose(r, h, w)
                s = (g, p, o, held)
                s2 = (g2, p2, o2, held)
                a = 6 if r.random() < 0.85 else a
            else:
                s2 = s
            origin = 'door-change'
        elif kk < 0.96:
            # perturb one feature
            p2, o2 = gen.rand_pose(r, h, w)
            s2 = (g, p2, o, r.choice([held, KEY, gen.NONE]))
            origin = 'perturbed'
        else:
            # only the hands differ: every (held, held') pair of a small alphabet -- nothing / keys of two colours / a non-holdable item
            hands = [gen.NONE, (TY['Key'], 0, 1, None), (TY['Key'], 0, 4, None), gen.WALL, (TY['Door'], 0, 1, None)]
            s = (g, p, o, r.choice(hands))
            s2 = (g, p, o, r.choice(hands))
            origin = 'hands-change'
        yield (s, a, s2, origin)


def environment_level(ctx):
    """the reward and the flag an ENVIRONMENT hands out for a step are its components evaluated on (state before, action, state after) AS VALUES:
    the step is made through the copying functional interface, the two states are rebuilt from scratch from their content, and the components are
    asked again -- a step whose two states share objects (a door opened 'in both') pays the wrong reward"""
    from vt import access
    from vt.suites import C03
    r = ctx.rng
    for k in range(150 if ctx.tier == 'quick' else 1500):
        cs = C03.door_on_the_way(r) if r.random() < 0.5 else C03.one_exit(tsuite.interactive_world(r), r)
        label, env, desc = C03.interactive_env(gen.shape_of(cs[0]), r)
        s = wire.mkstate(cs)
        for _t in range(r.randint(1, 4)):
            a = r.choice([6, 6, 0, 0, 7, r.randrange(8)])
            before = wire.cstate(s)
            try:
                env.set_seed(r.randrange(1 << 30))
                s2, rwd, done = env.functional_step(s, impl.ACTS[a])
                after = wire.cstate(s2)
                exp_r = access.reward_function(env)(wire.mkstate(before), impl.ACTS[a], wire.mkstate(after))
                exp_d = access.termination_function(env)(wire.mkstate(before), impl.ACTS[a], wire.mkstate(after))
            except access.AccessError:
                return
            except Exception:  # noqa: BLE001  (raising steps are C01's business)
                break
            ctx.case(('env-level', before, a), after != before, None)
            ctx.count('environment-level step', impl.ACTS[a].name)
            if not core.same(rwd, exp_r) or bool(done) != bool(exp_d):
                ctx.violation(f'functional_step returned (reward {rwd!r}, done {done!r}); the components on the state before, {impl.ACTS[a].name} and the state after give ({exp_r!r}, {exp_d!r})',
                              {'state': gen.show_state(before), 'action': impl.ACTS[a].name, 'next_state': gen.show_state(after), 'wire_state': before})
                return
            s = s2


def run(ctx):
    r = ctx.rng
    ctx.rule = ('(s, a, s\') triples: s\' from real dynamics (60%), arbitrary same-shape states (20%), single-feature perturbations (20%); '
                'every reward and termination component with random float parameters, plus nested reduce_sum / reduce_any / reduce_all; '
                'plus directed origins (layout change, maze, several good exits, door change, hands change, the agent acting outward on the top / left edge); environment level: what functional_step pays = the components on the two states rebuilt from their values; non-trivial = the component returned something other than its "off" value, or raised')
    types = [TY[t] for t in ('Exit', 'Key', 'MovingObstacle', 'Beacon', 'Wall', 'Door')]
    rreqs, rmeta, treqs, tmeta = [], [], [], []
    for s, a, s2, origin in triples(ctx):
        ctx.count('triple origin', origin)
        for i in range(2):
            d = comp.rand_reward(r, types)
            if origin == 'layout-change' and i == 0:
                d = {'name': 'getting_closer_shortest_path', 'params': [comp.rand_param(r), comp.rand_param(r)], 'ty': TY['Exit']}
            if origin == 'maze' and i == 0:
                d = {'name': 'getting_closer_shortest_path', 'params': [comp.rand_param(r), comp.rand_param(r)], 'ty': TY['Exit']}
            if origin == 'multi-exit' and i == 0:
                d = {'name': 'reach_exit_memory', 'params': [comp.rand_param(r), comp.rand_param(r)]}
            if origin == 'door-change' and i == 0:
                d = {'name': 'actuate_door', 'params': [comp.rand_param(r), comp.rand_param(r)]}
            if origin == 'hands-change' and i == 0:
                d = {'name': 'pickndrop', 'params': [comp.rand_param(r), comp.rand_param(r)], 'ty': r.choice([TY['Key'], TY['Key'], TY['Wall'], TY['Door']])}
            f = comp.build_reward(d)
            got = call(f, s, a, s2)
            case = {'component': d, 'state': gen.show_state(s), 'action': impl.ACTS[a].name, 'next_state': gen.show_state(s2),
                    'wire': [s, a, s2]}
            # oracle
            if got[0] == 'ok':
                v = got[1]
                if not isinstance(v, float) or not math.isfinite(v):
                    ctx.violation(f'reward is not a finite float: {v!r}', case)
                if d['name'] == 'reduce_sum':
                    parts = [call(comp.build_reward(p), s, a, s2) for p in d['parts']]
                    if all(p[0] == 'ok' for p in parts) and sum(p[1] for p in parts) != v:
                        ctx.violation('composite reward is not the sum of its parts', case)
                else:
                    exp = expected_reward(d, s, a, s2)
                    if exp is not None and exp != v:
                        ctx.violation(f'{d["name"]} returned {v!r}, documented value {exp!r}', case)
            else:
                exp = expected_reward(d, s, a, s2) if d['name'] != 'reduce_sum' else None
                if exp is not None:
                    ctx.violation(f'{d["name"]} raised {got[1]} although its preconditions hold', case)
            nontrivial = got[0] != 'ok' or (d['name'] != 'reduce_sum' and got[1] not in (0.0, d['params'][-1])) or d['name'] == 'reduce_sum'
            ctx.count('reward component', d['name'])
            ctx.case(('r', repr(d), s, a, s2), nontrivial, {'reward': d, 'state': gen.show_state(s), 'action': impl.ACTS[a].name, 'result': got})
            rreqs.append([4, *comp.enc_reward(d), *wire.estate(s), a, *wire.estate(s2)])
            rmeta.append((d, got, case))
        t = comp.rand_term(r, types)
        got = call(comp.build_term(t), s, a, s2)
        case = {'component': t, 'state': gen.show_state(s), 'action': impl.ACTS[a].name, 'next_state': gen.show_state(s2), 'wire': [s, a, s2]}
        exp = expected_term(t, s, a, s2)
        if got[0] == 'ok':
            if type(got[1]) is not bool:
                ctx.violation(f'termination flag is not a bool: {got[1]!r}', case)
            if exp is not None and bool(got[1]) != exp:
                ctx.violation(f'termination {t} returned {got[1]}, documented value {exp}', case)
        elif exp is not None:
            ctx.violation(f'termination raised {got[1]}', case)
        # exit reward <-> exit termination
        re_ = call(comp.build_reward({'name': 'reach_exit', 'params': [5.0, 0.0]}), s, a, s2)
        te_ = call(comp.build_term({'name': 'reach_exit'}), s, a, s2)
        if re_[0] == 'ok' and te_[0] == 'ok' and (re_[1] == 5.0) != bool(te_[1]):
            ctx.violation('exit reward and exit termination disagree', case)
        ctx.count('termination component', t['name'])
        ctx.case(('t', repr(t), s, a, s2), got[0] != 'ok' or bool(got[1]), None)
        treqs.append([5, *comp.enc_term(t), *wire.estate(s), a, *wire.estate(s2)])
        tmeta.append((t, got, case))
    # determinism / history independence: every reward question asked again, in another order, after all the other calls
    order = list(range(len(rmeta)))
    r.shuffle(order)
    for i in order[:600 if ctx.tier == 'quick' else 6000]:
        d, got, case = rmeta[i]
        s, a, s2 = case['wire']
        again = call(comp.build_reward(d), s, a, s2)
        ctx.case(('again', i), True, None)
        if again != got:
            ctx.violation(f'{d["name"]} is not a function of (state, action, next state): asked again after other calls it returned {again!r} instead of {got!r}', case)
    answers = ctx.model(rreqs + treqs)
    if answers is None:
        return
    for (d, got, case), ans in zip(rmeta, answers[:len(rreqs)]):
        R = wire.Reader(ans)
        m = R.res(lambda: comp.read_rv(R))
        if m[0] == 'ok':
            m = ('ok', comp.eval_rv(d, m[1]))
        if m != got or not R.done():
            c = dict(case)
            c.update({'impl': got, 'model': m})
            ctx.disagreement('reward: implementation and model differ', c)
    for (t, got, case), ans in zip(tmeta, answers[len(rreqs):]):
        R = wire.Reader(ans)
        m = R.res(lambda: bool(R.z()))
        g = (got[0], bool(got[1])) if got[0] == 'ok' else got
        if m != g or not R.done():
            c = dict(case)
            c.update({'impl': got, 'model': m})
            ctx.disagreement('termination: implementation and model differ', c)
    environment_level(ctx)


if __name__ == '__main__':
    sys.exit(core.main('C12', run, None))
