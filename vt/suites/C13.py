"""C13 -- reset functions always produce well-formed initial states.  T2 with recorded draws for shapes 1x1..16x16 and
parameter sweeps; the COMPLETE outcome tree (ScriptedRng DFS) vs the model's `leaves` for small shapes; oracle: the statement."""
import itertools as itt
import sys

import vt.boot  # noqa: F401

from vt import comp, core, gen, impl, wire
from vt.rngproxy import enumerate_outcomes

TY = gen.TY
NULLARY = [TY['Wall'], TY['MovingObstacle'], TY['Floor']]


def wellformed(d, cs):
    """list of complaints about an initial state (the property's statement)"""
    out = []
    g, p, o, held = cs
    h, w = gen.shape_of(g)
    n = d['name']
    if (h, w) != tuple(d['shape']):
        out.append(f'shape {(h, w)} is not the requested {d["shape"]}')
        return out
    for y in range(h):
        for x in range(w):
            if (y in (0, h - 1) or x in (0, w - 1)) and g[y][x][0] != TY['Wall']:
                out.append(f'boundary cell {(y, x)} is not a wall')
    if not (0 <= p[0] < h and 0 <= p[1] < w):
        out.append('agent outside the grid')
        return out
    here = g[p[0]][p[1]]
    if held != gen.NONE:
        out.append('agent is not empty-handed')
    if wire.mkobj(here).blocks_movement or here[0] in (TY['Exit'], TY['MovingObstacle'], TY['Telepod']):
        out.append(f'agent stands on {gen.show_obj(here)}')
    cnt = lambda ty: sum(1 for row in g for c in row if c[0] == ty)
    cells = [(y, x, c) for y, row in enumerate(g) for x, c in enumerate(row)]
    if n in ('empty', 'rooms', 'dynamic_obstacles', 'keydoor', 'crossing', 'teleport'):
        if cnt(TY['Exit']) != 1:
            out.append(f'{cnt(TY["Exit"])} exits instead of one')
    if n == 'dynamic_obstacles' and cnt(TY['MovingObstacle']) != d['num_obstacles']:
        out.append(f'{cnt(TY["MovingObstacle"])} obstacles instead of {d["num_obstacles"]}')
    if n == 'keydoor':
        doors = [(y, x, c) for y, x, c in cells if c[0] == TY['Door']]
        keys = [(y, x, c) for y, x, c in cells if c[0] == TY['Key']]
        if len(doors) != 1 or doors[0][2][1] != 2:
            out.append('not exactly one locked door')
        elif len(keys) != 1 or keys[0][2][2] != doors[0][2][2]:
            out.append('not exactly one key of the door colour')
        else:
            xd = doors[0][1]
            col = [g[y][xd][0] for y in range(1, h - 1)]
            if sorted(col) != sorted([TY['Wall']] * (h - 3) + [TY['Door']]):
                out.append('the door is not in a dividing wall column')
            if not keys[0][1] < xd or not p[1] < xd:
                out.append('key or agent not on the left of the dividing wall')
            ex = [(y, x) for y, x, c in cells if c[0] == TY['Exit']]
            if ex and not ex[0][1] > xd:
                out.append('exit not behind the door')
    if n == 'teleport':
        pods = [c for _, _, c in cells if c[0] == TY['Telepod']]
        if len(pods) != 2 or pods[0][2] != pods[1][2]:
            out.append('not exactly two same-coloured telepods')
    if n in ('memory', 'memory_rooms'):
        exits = [c for _, _, c in cells if c[0] == TY['Exit']]
        beacons = [c for _, _, c in cells if c[0] == TY['Beacon']]
        ne = d.get('num_exits', 2)
        nb = d.get('num_beacons', 2)
        if len(exits) != ne or len({e[2] for e in exits}) != len(exits):
            out.append('exits are not of pairwise distinct colours / wrong number')
        if len(beacons) != nb or len({b[2] for b in beacons}) != 1:
            out.append('beacons missing or of different colours')
        elif sum(1 for e in exits if e[2] == beacons[0][2]) != 1:
            out.append('beacon colour does not match exactly one exit')
        if any(e[2] not in d['colors'] for e in exits):
            out.append('exit colour outside the requested colours')
    return out


def param_sets(ctx):
    r = ctx.rng
    hi = 10 if ctx.tier == 'quick' else 16
    shapes = [(h, w) for h in range(1, hi + 1) for w in range(1, hi + 1)]
    pick = lambda k: r.sample(shapes, min(k, len(shapes)))
    k = 40 if ctx.tier == 'quick' else 200
    for sh in pick(k):
        for ra, re in itt.product((False, True), repeat=2):
            yield {'name': 'empty', 'shape': sh, 'random_agent': ra, 'random_exit': re}
    for sh in pick(k):
        for lay in ((1, 1), (2, 2), (2, 3), (3, 3), (1, 4), (r.randint(1, 5), r.randint(1, 5))):
            yield {'name': 'rooms', 'shape': sh, 'layout': lay}
    for sh in pick(k):
        cells = max(0, (sh[0] - 2) * (sh[1] - 2))
        for nob in {0, 1, 2, max(0, cells - 3), max(0, cells - 2), cells - 1, cells, cells + 2}:
            if nob >= 0:
                yield {'name': 'dynamic_obstacles', 'shape': sh, 'num_obstacles': nob, 'random_agent': r.random() < 0.5}
    for sh in pick(k) + [(3, 5), (3, 6), (4, 5), (5, 5), (3, 7)]:
        yield {'name': 'keydoor', 'shape': sh}
    for sh in pick(k) + [(5, 5), (5, 7), (7, 5), (9, 9)]:
        for nr in (0, 1, 2, 3, 5, 8):
            yield {'name': 'crossing', 'shape': sh, 'num_rivers': nr, 'object_type': r.choice(NULLARY[:2])}
    for sh in pick(k) + [(4, 4), (4, 5), (5, 5)]:
        yield {'name': 'teleport', 'shape': sh}
    # counts that are numpy integers (same values, another integer type)
    for sh in pick(6):
        cells = max(0, (sh[0] - 2) * (sh[1] - 2))
        yield {'name': 'dynamic_obstacles', 'shape': sh, 'num_obstacles': min(2, max(0, cells - 2)), 'random_agent': True, 'numpy_ints': True}
        yield {'name': 'crossing', 'shape': (7, 7), 'num_rivers': 2, 'object_type': NULLARY[0], 'numpy_ints': True}
        yield {'name': 'memory_rooms', 'shape': (9, 9), 'layout': (2, 2), 'colors': [1, 2, 3, 4], 'num_beacons': 2, 'num_exits': 3, 'numpy_ints': True}
    # LARGE shapes (far above the shipped 13x13): whatever the code does differently for big inputs
    big = [(35, 35), (41, 41), (33, 47), (51, 51)] if ctx.tier == 'quick' else [(35, 35), (41, 41), (33, 47), (51, 51), (64, 64), (45, 45), (37, 59)]
    for sh in big:
        yield {'name': 'empty', 'shape': sh, 'random_agent': True, 'random_exit': True}
        yield {'name': 'rooms', 'shape': sh, 'layout': r.choice([(1, 1), (2, 2), (3, 3)])}
        yield {'name': 'dynamic_obstacles', 'shape': sh, 'num_obstacles': 12, 'random_agent': True}
        yield {'name': 'keydoor', 'shape': sh}
        yield {'name': 'crossing', 'shape': (sh[0] | 1, sh[1] | 1), 'num_rivers': 6, 'object_type': NULLARY[0]}
        yield {'name': 'teleport', 'shape': sh}
        yield {'name': 'memory', 'shape': (sh[0], sh[1] | 1), 'colors': [1, 2, 3]}
        yield {'name': 'memory_rooms', 'shape': sh, 'layout': (2, 2), 'colors': [1, 2, 3, 4], 'num_beacons': 2, 'num_exits': 3}
    colsets = [[1, 2], [1, 2, 3, 4], [4, 2, 3], [1], [], [0, 1, 2], [3, 4]]
    for sh in pick(k) + [(5, 5), (9, 9), (5, 7), (6, 5)]:
        yield {'name': 'memory', 'shape': sh, 'colors': r.choice(colsets)}
    for sh in pick(k) + [(7, 7), (9, 9), (10, 10)]:
        yield {'name': 'memory_rooms', 'shape': sh, 'layout': r.choice([(1, 1), (2, 2), (3, 3), (2, 1)]), 'colors': r.choice(colsets),
               'num_beacons': r.choice([0, 1, 1, 2, 3]), 'num_exits': r.choice([1, 2, 2, 3, 4, 5])}


def small_param_sets(ctx):
    """parameter sets whose complete outcome tree is small enough to enumerate"""
    big = ctx.tier == 'thorough'
    yield {'name': 'empty', 'shape': (4, 4), 'random_agent': False, 'random_exit': True}      # D5
    yield {'name': 'empty', 'shape': (4, 5), 'random_agent': True, 'random_exit': True}
    yield {'name': 'empty', 'shape': (5, 4), 'random_agent': True, 'random_exit': False}
    yield {'name': 'dynamic_obstacles', 'shape': (4, 4), 'num_obstacles': 2, 'random_agent': False}
    yield {'name': 'dynamic_obstacles', 'shape': (4, 5), 'num_obstacles': 2, 'random_agent': True}
    yield {'name': 'dynamic_obstacles', 'shape': (4, 4), 'num_obstacles': 3, 'random_agent': False}   # too many
    yield {'name': 'keydoor', 'shape': (4, 5)}
    yield {'name': 'keydoor', 'shape': (3, 6)}
    yield {'name': 'keydoor', 'shape': (5, 5)}
    yield {'name': 'teleport', 'shape': (4, 4)}
    yield {'name': 'teleport', 'shape': (4, 5)}
    yield {'name': 'crossing', 'shape': (5, 5), 'num_rivers': 1, 'object_type': TY['Wall']}
    yield {'name': 'crossing', 'shape': (5, 5), 'num_rivers': 2, 'object_type': TY['Wall']}
    yield {'name': 'crossing', 'shape': (5, 7), 'num_rivers': 2, 'object_type': TY['MovingObstacle']}
    yield {'name': 'memory', 'shape': (5, 5), 'colors': [1, 2, 3]}
    yield {'name': 'memory', 'shape': (6, 7), 'colors': [2, 4]}
    yield {'name': 'rooms', 'shape': (5, 5), 'layout': (2, 2)}
    yield {'name': 'rooms', 'shape': (4, 5), 'layout': (1, 2)}
    yield {'name': 'memory_rooms', 'shape': (5, 5), 'layout': (1, 1), 'colors': [1, 2], 'num_beacons': 1, 'num_exits': 2}
    if big:
        yield {'name': 'keydoor', 'shape': (5, 6)}
        yield {'name': 'crossing', 'shape': (7, 7), 'num_rivers': 1, 'object_type': TY['Wall']}
        yield {'name': 'teleport', 'shape': (5, 5)}
        yield {'name': 'empty', 'shape': (6, 6), 'random_agent': True, 'random_exit': True}
        yield {'name': 'rooms', 'shape': (5, 7), 'layout': (2, 2)}


def valid_params(d):
    """P7: the YAML schema's domain (positive ints, known colours); TypeErrors for ill-typed parameters are outside"""
    return True


def run(ctx):
    ctx.rule = ('every reset function over shapes 1x1..10x10 (thorough 16x16), layouts, counts 0..cells+2, colour sets (valid and invalid), flags; '
                'recorded draws replayed on the model; complete outcome trees for small parameter sets; non-trivial = distinct parameter set '
                'that returned a state (not ValueError)')
    reqs, metas = [], []
    for d in param_sets(ctx):
        for rep in range(2):
            kind, val, log, tape = comp.run_reset(d, own=True, seed=ctx.rng.randrange(1 << 30))
            ctx.count('reset function', d['name'])
            ctx.count('result', kind if kind == 'ok' else val)
            case = {'reset': d, 'draws': tape}
            if kind == 'ok':
                for c in wellformed(d, val):
                    ctx.violation(f'{d["name"]}: {c}', dict(case, state=gen.show_state(val)))
            elif val != 'ValueError':
                ctx.violation(f'{d["name"]} raised {val} instead of ValueError', case)
            ctx.case((repr(sorted(d.items())), tuple(map(tuple, tape))), kind == 'ok', {'reset': d, 'result': kind if kind == 'ok' else val, 'draws': len(tape)})
            reqs.append([8, *comp.enc_reset(d), 1, *wire.etape(tape)])
            metas.append((d, kind, val, log))
            if kind != 'ok':
                break
    answers = ctx.model(reqs)
    if answers is not None:
        for (d, kind, val, log), ans in zip(metas, answers):
            R = wire.Reader(ans)
            mk, mv, mlog = R.outcome(R.state)
            if (mk, mv) != (kind, val) or impl.norm_log(mlog) != impl.norm_log(log):
                ctx.disagreement('reset: implementation and model differ', {'reset': d, 'impl': [kind, val, log], 'model': [mk, mv, mlog]})
    # complete outcome trees
    treqs, tmetas = [], []
    for d in small_param_sets(ctx):
        outs = []
        try:
            for script, res, log in enumerate_outcomes(lambda rng, d=d: comp.run_reset(d, True, script=rng.script), 60000):
                outs.append((res[0], res[1]) if isinstance(res, tuple) else ('err', type(res).__name__))
        except OverflowError:
            ctx.count('tree too large', d['name'])
            continue
        ctx.trees += 1
        ctx.tree_leaves += len(outs)
        ctx.count('outcome tree size', len(outs))
        for k, v in outs:
            if k == 'ok':
                for c in wellformed(d, v):
                    ctx.violation(f'{d["name"]}: {c}', {'reset': d, 'state': gen.show_state(v)})
            elif v != 'ValueError':
                ctx.violation(f'{d["name"]} raised {v} instead of ValueError', {'reset': d})
        ctx.case(('tree', repr(sorted(d.items()))), len(outs) > 1, {'reset_tree': d, 'outcomes': len(outs)})
        treqs.append([9, *comp.enc_reset(d), 1])
        tmetas.append((d, outs))
    answers = ctx.model(treqs)
    if answers is not None:
        for (d, outs), ans in zip(tmetas, answers):
            R = wire.Reader(ans)
            if R.z() != 0:
                ctx.disagreement('model could not enumerate the reset outcome tree', {'reset': d})
                continue
            mouts = R.lst(lambda: R.res(R.state))
            if sorted(map(repr, outs)) != sorted(map(repr, mouts)):
                ctx.disagreement('reset outcome trees differ', {'reset': d, 'impl_n': len(outs), 'model_n': len(mouts)})


if __name__ == '__main__':
    sys.exit(core.main('C13', run, None))
