"""C14 -- every initial state is winnable.  Search over ALL histories of the REAL step function (all actions x all random
outcomes via ScriptedRng) from initial states of every reset function paired with the dynamics its shipped configurations
use; complete outcome trees for small parameter sets, seeds for large ones.  Known findings (known_findings.json) are
identified by a class predicate; any other unwinnable state is a violation."""
import collections
import copy
import heapq
import itertools as itt
import json
import os
import sys

import vt.boot  # noqa: F401
from gym_gridverse.envs.yaml.factory import factory_env_from_data

from vt import comp, core, envs, gen, impl, wire
from vt.rngproxy import NeedMore, ScriptedRng, _answers, enumerate_outcomes

TY = gen.TY
VERIF = core.VERIF

# the dynamics every shipped configuration pairs a reset function with (computed from the shipped files at run time)
def pairing():
    table = {}
    for name, data, desc in envs.shipped_envs():
        table.setdefault(desc['reset']['name'], (desc['trans'], desc['term'], desc['actions'], desc['reward']))
    return table


# move_agent + turn_agent; the episode ends on the exit or on touching an obstacle
DEADLY_RIVERS = ([0, 1], {'name': 'reduce_any', 'parts': [{'name': 'reach_exit'}, {'name': 'bump_moving_obstacle'}]}, [0, 1, 2, 3, 4, 5], None)


NO_BUMPING = ([0, 1, 4, 2], {'name': 'reduce_any', 'parts': [{'name': 'reach_exit'}, {'name': 'bump_into_wall'}]}, list(range(8)), None)


def goal_reached(reset_name, cs):
    g, p, o, held = cs
    here = g[p[0]][p[1]]
    if here[0] != TY['Exit']:
        return False
    if reset_name in ('memory', 'memory_rooms'):
        beacons = [c for row in g for c in row if c[0] == TY['Beacon']]
        return bool(beacons) and here[2] == beacons[0][2]
    return True


def exit_dist(reset_name, cs):
    g, p, o, held = cs
    best = 99
    beacons = [c for row in g for c in row if c[0] == TY['Beacon']]
    for y, row in enumerate(g):
        for x, c in enumerate(row):
            if c[0] == TY['Exit'] and (not beacons or c[2] == beacons[0][2]):
                best = min(best, abs(y - p[0]) + abs(x - p[1]))
    extra = 0
    if reset_name == 'keydoor':
        locked = any(c[0] == TY['Door'] and c[1] != 0 for row in g for c in row)
        extra = (6 if locked else 0) + (0 if held[0] == TY['Key'] or not locked else 6)
    return best + extra


class World:
    """real step function of a GridWorld assembled from the registries; all random outcomes enumerated"""

    def __init__(self, trans, term, actions, relax=None):
        self.trans, self.actions = trans, actions
        self.termf = comp.build_term(term if relax is None else relax(term))
        from gym_gridverse.envs import transition_functions as trf
        self.fs = [trf.transition_function_registry[impl.TNAMES[n]] for n in trans]
        self.cache = {}

    def successors(self, cs, a, obj=None):
        """-> [(next value, terminal?, next python state)].  The step is made the way GridWorld makes it: on a pickle copy of the python state
        object that was REACHED (not on a state rebuilt from its value), so whatever the objects carry along a history travels with them"""
        import pickle
        key = (cs, a)
        if key in self.cache:
            return self.cache[key]
        outs = []
        base = obj if obj is not None else wire.mkstate(cs)

        def run(rng):
            s = pickle.loads(pickle.dumps(base))
            for f in self.fs:
                f(s, impl.ACTS[a], rng=rng)
            nxt = wire.cstate(s)
            done = bool(self.termf(base, impl.ACTS[a], s))
            return nxt, done, s

        stack = [[]]
        while stack:
            script = stack.pop()
            rng = ScriptedRng(script)
            try:
                outs.append(run(rng))
            except NeedMore as need:
                for ans in _answers(need.req):
                    stack.append(script + [ans])
        seen, uniq = set(), []
        for nxt, done, s in outs:
            if (nxt, done) not in seen:
                seen.add((nxt, done))
                uniq.append((nxt, done, s))
        self.cache[key] = uniq
        return uniq


def search(world, reset_name, cs0, limit):
    """best-first search for a goal state that is reached without passing through a terminating state.
    -> ('win', plan) | ('lost', explored) | ('undecided', explored)"""
    if goal_reached(reset_name, cs0):
        return ('win', [])
    seen = {cs0}
    heap = [(exit_dist(reset_name, cs0), 0, cs0, (), None)]
    tick = 0
    while heap:
        _, _, cs, plan, obj = heapq.heappop(heap)
        for a in world.actions:
            for nxt, done, nobj in world.successors(cs, a, obj):
                if goal_reached(reset_name, nxt):
                    return ('win', list(plan) + [a])
                if done or nxt in seen:
                    continue
                seen.add(nxt)
                if len(seen) > limit:
                    return ('undecided', len(seen))
                tick += 1
                heapq.heappush(heap, (exit_dist(reset_name, nxt) + len(plan) // 4, tick, nxt, plan + (a,), nobj))
    return ('lost', len(seen))


# ---- known findings: class predicates (DESIGN.md section 9) ----
def relax_wrong_exit(term):
    """treat wrong-colour exits as floor: only the goal terminates"""
    return {'name': 'reduce_all', 'parts': [term, {'name': 'overlap', 'ty': 999}]} if False else {'name': 'reduce_any', 'parts': []}


def relax_obstacles(term):
    def strip(t):
        if t['name'] in ('reduce_any', 'reduce_all'):
            return {'name': t['name'], 'parts': [strip(x) for x in t['parts'] if x['name'] != 'bump_moving_obstacle']}
        return t
    return strip(term)


def classify(reset_name, pair, cs0, limit):
    """-> the text of the known finding this unwinnable state belongs to, or None"""
    trans, term, actions, _ = pair
    known = json.load(open(os.path.join(VERIF, 'known_findings.json')))['known']
    ids = {k['id'] for k in known}
    if reset_name == 'memory_rooms' and 'K1' in ids:
        if search(World(trans, term, actions, relax=lambda t: {'name': 'reduce_any', 'parts': []}), reset_name, cs0, limit)[0] == 'win':
            return next(k['text'] for k in known if k['id'] == 'K1')
    if reset_name == 'dynamic_obstacles' and 'K2' in ids:
        if search(World(trans, term, actions, relax=relax_obstacles), reset_name, cs0, limit)[0] == 'win':
            return next(k['text'] for k in known if k['id'] == 'K2')
    return None


def initial_states(ctx, d, max_tree, seeds):
    """complete outcome tree when small, else seeds"""
    outs = []
    try:
        for script, res, log in enumerate_outcomes(lambda rng, d=d: comp.run_reset(d, True, script=rng.script), max_tree):
            if isinstance(res, tuple) and res[0] == 'ok':
                outs.append((res[1], script))
        ctx.trees += 1
        ctx.tree_leaves += len(outs)
        return list({s: sc for s, sc in outs}.items()), True
    except OverflowError:
        outs = []
        for _ in range(seeds):
            kind, val, log, tape = comp.run_reset(d, True, seed=ctx.rng.randrange(1 << 30))
            if kind == 'ok':
                outs.append((val, tape))
        return list({s: sc for s, sc in outs}.items()), False


def param_sets(ctx):
    shipped = [desc['reset'] for _, _, desc in envs.shipped_envs()]
    small = [
        {'name': 'empty', 'shape': (4, 4), 'random_agent': True, 'random_exit': True},
        {'name': 'empty', 'shape': (5, 6), 'random_agent': True, 'random_exit': True},
        {'name': 'crossing', 'shape': (5, 5), 'num_rivers': 2, 'object_type': TY['Wall']},
        {'name': 'crossing', 'shape': (7, 5), 'num_rivers': 3, 'object_type': TY['Wall']},
        {'name': 'crossing', 'shape': (7, 7), 'num_rivers': 4, 'object_type': TY['Wall']},
        {'name': 'keydoor', 'shape': (4, 5)}, {'name': 'keydoor', 'shape': (4, 7)}, {'name': 'keydoor', 'shape': (6, 6)},
        {'name': 'teleport', 'shape': (4, 4)}, {'name': 'teleport', 'shape': (4, 6)},
        {'name': 'memory', 'shape': (5, 5), 'colors': [1, 2]}, {'name': 'memory', 'shape': (7, 7), 'colors': [1, 2, 3]},
        # non-square memory corridors (height // 2 vs width // 2 must not be confused), tall and wide
        {'name': 'memory', 'shape': (7, 5), 'colors': [1, 2]}, {'name': 'memory', 'shape': (9, 5), 'colors': [2, 4]}, {'name': 'memory', 'shape': (5, 9), 'colors': [1, 3]},
        {'name': 'rooms', 'shape': (7, 5), 'layout': (3, 1)}, {'name': 'keydoor', 'shape': (5, 8)}, {'name': 'keydoor', 'shape': (7, 6)}, {'name': 'keydoor', 'shape': (8, 7)}, {'name': 'teleport', 'shape': (6, 4)},
        # sizes the layout does not divide evenly (rooms of unequal size; the outer wall must still be the grid boundary)
        {'name': 'rooms', 'shape': (6, 6), 'layout': (2, 2)}, {'name': 'rooms', 'shape': (8, 8), 'layout': (2, 2)}, {'name': 'rooms', 'shape': (6, 9), 'layout': (1, 3)},
        # parameter sets at and below the limits (today: ValueError, nothing to search; if one of them starts to yield states, they are searched):
        # one-row key-door grids, layouts whose rooms would have no cells (finding D8: rooms 5x5 / (4,1) used to return three unconnected
        # floor cells), tiny shapes
        {'name': 'keydoor', 'shape': (3, 5)}, {'name': 'keydoor', 'shape': (3, 6)}, {'name': 'keydoor', 'shape': (3, 7)},
        {'name': 'rooms', 'shape': (5, 5), 'layout': (4, 1)}, {'name': 'rooms', 'shape': (5, 5), 'layout': (1, 4)}, {'name': 'rooms', 'shape': (6, 4), 'layout': (5, 1)},
        {'name': 'rooms', 'shape': (5, 6), 'layout': (4, 1)},
        {'name': 'teleport', 'shape': (3, 5)}, {'name': 'dynamic_obstacles', 'shape': (3, 5), 'num_obstacles': 1, 'random_agent': False},
        {'name': 'crossing', 'shape': (3, 5), 'num_rivers': 1, 'object_type': TY['Wall']},
        {'name': 'rooms', 'shape': (5, 5), 'layout': (2, 2)}, {'name': 'rooms', 'shape': (5, 7), 'layout': (1, 2)}, {'name': 'rooms', 'shape': (7, 7), 'layout': (3, 3)},
        {'name': 'dynamic_obstacles', 'shape': (4, 5), 'num_obstacles': 1, 'random_agent': False},
        {'name': 'dynamic_obstacles', 'shape': (5, 5), 'num_obstacles': 3, 'random_agent': True},
        {'name': 'memory_rooms', 'shape': (5, 5), 'layout': (1, 1), 'colors': [1, 2], 'num_beacons': 1, 'num_exits': 2},
        # rivers of another object type (the reset function's parameter): obstacles used as static, deadly water under dynamics in which
        # touching one ends the episode -- the openings are what makes the exit reachable
        {'name': 'crossing', 'shape': (5, 5), 'num_rivers': 1, 'object_type': TY['MovingObstacle'], '_pair': DEADLY_RIVERS},
        {'name': 'crossing', 'shape': (7, 7), 'num_rivers': 2, 'object_type': TY['MovingObstacle'], '_pair': DEADLY_RIVERS},
        {'name': 'crossing', 'shape': (7, 9), 'num_rivers': 3, 'object_type': TY['MovingObstacle'], '_pair': DEADLY_RIVERS},
        # the same layouts under stricter rules than the shipped files use: walking into a wall ends the episode (the way through never requires it)
        {'name': 'keydoor', 'shape': (5, 6), '_pair': NO_BUMPING}, {'name': 'keydoor', 'shape': (4, 7), '_pair': NO_BUMPING},
        {'name': 'rooms', 'shape': (7, 7), 'layout': (2, 2), '_pair': NO_BUMPING}, {'name': 'crossing', 'shape': (7, 5), 'num_rivers': 2, 'object_type': TY['Wall'], '_pair': NO_BUMPING},
        {'name': 'empty', 'shape': (4, 5), 'random_agent': True, 'random_exit': True, '_pair': NO_BUMPING},
    ]
    return shipped + small


def corpus_known(ctx, table):
    """concrete witnesses of the known findings: re-examined on EVERY run (this is what prints KNOWN-FINDING deterministically)"""
    path = os.path.join(VERIF, 'corpus', 'C14_known.json')
    if not os.path.exists(path):
        return
    for w in json.load(open(path)):
        d = w['reset']
        d['shape'] = tuple(d['shape'])
        if 'layout' in d:
            d['layout'] = tuple(d['layout'])
        kind, val, log, tape = comp.run_reset(d, True, script=w['draws'])
        ctx.case(('known', w['id']), True, {'known_finding_witness': w['id'], 'reset': d})
        if kind != 'ok':
            continue   # the reset function no longer produces this layout: nothing to report
        pair = table[d['name']]
        res = search(World(pair[0], pair[1], pair[2]), d['name'], val, 60000)
        if res[0] == 'lost':
            ctx.violation(f'{d["name"]}: unwinnable initial state', {'reset': d, 'draws': w['draws'], 'state': gen.show_state(val), 'wire_state': val,
                                                                    'pair': [pair[0], pair[1], pair[2]]})


def known_matcher(what, case):
    if 'unwinnable' not in what or 'pair' not in case:
        return None
    d = case['reset']
    from vt.tsuite import tup
    cs0 = tup(case['wire_state'])
    pair = (case['pair'][0], case['pair'][1], case['pair'][2], None)
    return classify(d['name'], pair, cs0, 60000)


def run(ctx):
    ctx.rule = ('initial states of every shipped parameter set and 18 small ones (complete outcome tree of the real reset function when it has at most '
                '400 (thorough 5000) leaves, else seeds); best-first search over the real step function: all actions x all random outcomes, never through '
                'a terminating state, every step made on a pickle copy of the python state that was REACHED (object-carried staleness travels along); also river types other than Wall under fatal-obstacle rules and the shipped layouts under no-bumping rules; win = plan found, lost = search space exhausted; non-trivial = distinct initial state decided')
    table = pairing()
    corpus_known(ctx, table)
    max_tree = 400 if ctx.tier == 'quick' else 5000
    seeds = 10 if ctx.tier == 'quick' else 150
    limit = 4000 if ctx.tier == 'quick' else 60000
    budget = 40 if ctx.tier == 'quick' else 1500
    for d in param_sets(ctx):
        d = dict(d)
        pair = d.pop('_pair', None) or table[d['name']]
        world = World(pair[0], pair[1], pair[2])
        states, complete = initial_states(ctx, d, max_tree, seeds)
        ctx.rng.shuffle(states)
        big = d['shape'][0] * d['shape'][1] >= 49
        for cs0, draws in states[:(8 if big and ctx.tier == 'quick' else budget)]:
            res = search(world, d['name'], cs0, limit)
            ctx.count(f'{d["name"]} {d["shape"][0]}x{d["shape"][1]}', res[0])
            ctx.case((repr(sorted(d.items())), cs0), res[0] != 'undecided',
                     {'reset': d, 'verdict': res[0], 'plan': [impl.ACTS[a].name for a in res[1]][:40] if res[0] == 'win' else res[1]})
            if res[0] == 'lost':
                ctx.violation(f'{d["name"]}: unwinnable initial state',
                              {'reset': d, 'draws': draws, 'state': gen.show_state(cs0), 'wire_state': cs0, 'pair': [pair[0], pair[1], pair[2]]})
            elif res[0] == 'win' and ctx.model_available and len(res[1]) <= 60 and d['name'] not in ('dynamic_obstacles', 'teleport'):
                # the plan found on the code is replayed on the model (deterministic dynamics): same final state
                cs = cs0
                reqs = []
                for a in res[1]:
                    reqs.append(impl.transition_request(pair[0], True, a, cs, []))
                    kind, val, _, _ = impl.run_transition(pair[0], cs, a, True)
                    cs = val
                answers = ctx.model(reqs[-1:]) if reqs else []
                if answers:
                    mk, mv, _ = impl.decode_transition(answers[0])
                    if (mk, mv) != ('ok', cs):
                        ctx.disagreement('plan replay: model and implementation differ on the last step', {'reset': d, 'plan': res[1]})


if __name__ == '__main__':
    sys.exit(core.main('C14', run, None, known_matcher=known_matcher))
