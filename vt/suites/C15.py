"""C15 -- numeric representations lie inside their declared spaces.  T2: conversion and .space of the real representations vs
the model for random and systematic type / colour subsets; oracle: Space.contains key by key on the code's own output; gym layer:
gym.spaces membership along trajectories of all shipped environments."""
import copy
import itertools as itt
import sys

import numpy as np

import vt.boot  # noqa: F401
import gym_gridverse.debugging as gvdebug

from vt import core, envs, gen, impl, rsuite, wire


def run(ctx):
    r = ctx.rng
    ctx.rule = ('type subsets (all single types, all pairs, random larger subsets of the registered types; boxes only in observation spaces) x colour subsets '
                'x shapes >= 2x2 (odd width for observations) x member states covering every object, status, colour, pose and held item x 3 '
                'representations; spaces declared with lists, tuples and lists the caller extends afterwards; user types with 2..7 statuses and instance colours; gym layer: every step of '
                'trajectories of the 21 shipped environments; non-trivial = distinct (space, member, representation)')
    reqs, metas = [], []
    subsets = [[t] for t in rsuite.REPRESENTABLE] + [list(c) for c in itt.combinations(rsuite.REPRESENTABLE, 2)]
    for _ in range(60 if ctx.tier == 'quick' else 600):
        subsets.append(r.sample(rsuite.REPRESENTABLE, r.randint(3, len(rsuite.REPRESENTABLE))))
    per = 2 if ctx.tier == 'quick' else 8
    remembered = []   # (representation, the space it declared when it was built, member, description): looked at again at the end of the run
    for types in subsets:
        for is_state in (True, False):
            tys = list(types) if is_state or r.random() < 0.5 else list(types) + [gen.TY['Box']]
            colors = sorted(set(r.sample([0, 1, 2, 3, 4], r.randint(1, 5))))
            shape = (r.randint(2, 5), r.choice([3, 5]) if not is_state else r.randint(2, 5))
            try:
                space = rsuite.state_space(tys, colors, shape) if is_state else rsuite.obs_space(tys, colors, shape)
            except Exception as e:  # noqa: BLE001
                ctx.violation(f'space construction raised {type(e).__name__}', {'types': tys, 'colors': colors, 'shape': shape})
                continue
            for kind in rsuite.KINDS:
                try:
                    rep = (rsuite.make_state_representation if is_state else rsuite.make_observation_representation)(kind, space)
                    sp = rep.space
                except Exception as e:  # noqa: BLE001
                    ctx.violation(f'building the `{kind}` representation of a valid space (or reading the space it declares) raised {type(e).__name__}: {e}',
                                  {'types': tys, 'colors': colors, 'shape': shape, 'kind': kind, 'is_state': is_state, 'declared_with': type(getattr(space, 'object_types', None)).__name__})
                    continue
                for _ in range(per):
                    cs = rsuite.member_state(r, tys, colors, shape, is_state)
                    gvdebug.reset_gv_debug(True)
                    try:
                        out = rep.convert(wire.mkstate(cs) if is_state else rsuite.as_obs(cs))
                    except Exception as e:  # noqa: BLE001
                        gvdebug.reset_gv_debug(None)
                        ctx.violation(f'convert raised {type(e).__name__}: {e}', {'types': tys, 'colors': colors, 'kind': kind, 'state': gen.show_state(cs), 'is_state': is_state})
                        continue
                    gvdebug.reset_gv_debug(None)
                    bad = rsuite.in_space(out, sp)
                    if len(remembered) < 300 and r.random() < 0.08:
                        remembered.append((rep, sp, cs, is_state, kind, tys, colors, shape))
                    case = {'types': tys, 'colors': colors, 'shape': shape, 'kind': kind, 'is_state': is_state, 'state': gen.show_state(cs), 'wire_state': cs}
                    if bad:
                        ctx.violation(f'representation `{kind}` outside its declared space at keys {bad}', case)
                    ctx.count('representation', kind)
                    ctx.count('space', 'state' if is_state else 'observation')
                    ctx.case((tuple(tys), tuple(colors), shape, kind, is_state, cs), True,
                             {'types': tys, 'colors': colors, 'kind': kind, 'is_state': is_state, 'item': [int(v) for v in out['item']]})
                    flat, floats = rsuite.flatten_impl(out, sp, is_state)
                    reqs.append(rsuite.request(kind, tys, colors, is_state, cs))
                    metas.append((case, flat, floats, shape, is_state))
    # a representation built earlier stays inside the space it declared then, whatever other representations (other kinds, other spaces)
    # were built and used in the meantime
    for rep, sp, cs, is_state, kind, tys, colors, shape in remembered:
        gvdebug.reset_gv_debug(True)
        try:
            out = rep.convert(wire.mkstate(cs) if is_state else rsuite.as_obs(cs))
            bad = rsuite.in_space(out, sp) or rsuite.in_space(out, rep.space)
        except Exception as e:  # noqa: BLE001
            bad = [f'raised {type(e).__name__}']
        finally:
            gvdebug.reset_gv_debug(None)
        ctx.case(('later', tuple(tys), tuple(colors), shape, kind, is_state, cs), True, None)
        if bad:
            ctx.violation(f'representation `{kind}`: after other representations were built and used, a conversion is outside the space declared at construction ({bad})',
                          {'types': tys, 'colors': colors, 'shape': shape, 'kind': kind, 'is_state': is_state, 'state': gen.show_state(cs)})
    answers = ctx.model(reqs)
    if answers is not None:
        for (case, flat, floats, shape, is_state), ans in zip(metas, answers):
            m, mf = rsuite.decode_model(ans, shape[0], shape[1], is_state)
            if m != flat or mf != floats:
                ctx.disagreement('representation: implementation and model differ', dict(case, impl=flat[-12:], model=(m[-12:] if isinstance(m, list) else m), impl_f=floats, model_f=mf))
    gym_layer(ctx)
    user_types(ctx)


def user_types(ctx):
    """spaces over user-defined grid-object types (registered after the library was imported) with MORE statuses / more colours in use than any
    built-in type: every representation of such a space is built, and every member converts into the space it declares"""
    import enum
    from gym_gridverse.agent import Agent
    from gym_gridverse.geometry import Orientation, Position, Shape
    from gym_gridverse.grid import Grid
    from gym_gridverse.grid_object import Color, Floor, GridObject, Wall, grid_object_registry as reg
    from gym_gridverse.observation import Observation
    from gym_gridverse.spaces import ObservationSpace, StateSpace
    from gym_gridverse.state import State
    r = ctx.rng
    n0 = len(reg.data)
    try:
        for nstat in (2, 4, 5, 7):
            class VerifLamp(GridObject):      # noqa: D401 -- registered by subclassing, removed again below
                blocks_movement = False
                blocks_vision = False
                holdable = True
                NUM = nstat

                def __init__(self, level, color):
                    self.level, self._color = level, color

                @property
                def state_index(self):
                    return self.level

                @property
                def color(self):
                    return self._color

                @classmethod
                def can_be_represented_in_state(cls):
                    return True

                @classmethod
                def num_states(cls):
                    return cls.NUM

                def __repr__(self):
                    return f'VerifLamp({self.level}, {self.color})'
            colors = [Color.NONE, Color.RED, Color.YELLOW]
            for is_state in (True, False):
                shape = Shape(3, 3)
                space = (StateSpace if is_state else ObservationSpace)(shape, [Floor, Wall, VerifLamp], colors)
                for kind in rsuite.KINDS:
                    ctx.case(('user-type', nstat, is_state, kind), True, None)
                    ctx.count('user type statuses', nstat)
                    try:
                        rep = (rsuite.make_state_representation if is_state else rsuite.make_observation_representation)(kind, space)
                        sp = rep.space
                        for _ in range(6):
                            cells = [[r.choice([Floor(), Wall(), VerifLamp(r.randrange(nstat), r.choice(colors)), VerifLamp(nstat - 1, Color.YELLOW)]) for _ in range(3)] for _ in range(3)]
                            agent = Agent(Position(2, 1), Orientation.F if not is_state else r.choice(list(Orientation)), r.choice([None, VerifLamp(nstat - 1, Color.RED)]))
                            member = State(Grid(cells), agent) if is_state else Observation(Grid(cells), agent)
                            if not space.contains(member):
                                ctx.violation(f'a {"state" if is_state else "observation"} made of the declared types is not a member of its space (user type with {nstat} statuses)', {'statuses': nstat})
                                continue
                            bad = rsuite.in_space(rep.convert(member), sp)
                            if bad:
                                ctx.violation(f'representation `{kind}` of a space with a user type of {nstat} statuses is outside its declared space at keys {bad}', {'statuses': nstat, 'kind': kind, 'is_state': is_state})
                    except Exception as e:  # noqa: BLE001
                        ctx.violation(f'representation `{kind}` of a {"state" if is_state else "observation"} space with a user type of {nstat} statuses raised {type(e).__name__}: {e}',
                                      {'statuses': nstat, 'kind': kind, 'is_state': is_state})
            del reg.data[n0:]
    finally:
        del reg.data[n0:]


def gym_layer(ctx):
    """the spaces advertised at the gym layer contain every observation (and state) along trajectories of every shipped environment"""
    import gym
    from gym_gridverse.envs.yaml.factory import factory_env_from_data
    from gym_gridverse.gym import GymEnvironment, outer_space_to_gym_space
    from gym_gridverse.outer_env import OuterEnv
    r = ctx.rng
    steps = 25 if ctx.tier == 'quick' else 200
    for name, data, desc in envs.shipped_envs():
        inner = factory_env_from_data(copy.deepcopy(data))
        for kind in rsuite.KINDS:
            srep = rsuite.make_state_representation(kind, inner.state_space) if inner.state_space.can_be_represented else None
            orep = rsuite.make_observation_representation(kind, inner.observation_space)
            genv = GymEnvironment(OuterEnv(inner, state_representation=srep, observation_representation=orep))
            inner.set_seed(r.randrange(1 << 30))
            obs = genv.reset()
            for t in range(steps):
                ctx.count('gym layer', kind)
                ctx.case(('gym', name, kind, t, r.random()), True, None)
                for what, space, val in (('observation', genv.observation_space, obs), ('state', genv.state_space, genv.state if srep else None)):
                    if val is None:
                        continue
                    if not space.contains(val):
                        bad = [k for k in val if not space[k].contains(val[k])]
                        ctx.violation(f'gym {what} space of {name} ({kind}) does not contain the {what}: keys {bad}, dtypes {[str(val[k].dtype) for k in bad]}',
                                      {'env': name, 'kind': kind, 'step': t})
                act = r.randrange(genv.action_space.n)
                try:
                    obs, rew, done, info = genv.step(act)
                except Exception as e:  # noqa: BLE001
                    ctx.violation(f'a step of {name} through the gym layer ({kind}) raised {type(e).__name__}: {e} -- the state reached from reset is not accepted by the declared space',
                                  {'env': name, 'kind': kind, 'step': t, 'action': act})
                    break
                if done:
                    obs = genv.reset()
        # switching representations on one environment object: the advertised spaces must follow every switch
        if inner.state_space.can_be_represented:
            genv = GymEnvironment(OuterEnv(inner, state_representation=rsuite.make_state_representation(r.choice(rsuite.KINDS), inner.state_space),
                                           observation_representation=rsuite.make_observation_representation(r.choice(rsuite.KINDS), inner.observation_space)))
            genv.reset()
            for t in range(6 if ctx.tier == 'quick' else 30):
                which, kind = r.choice(['state', 'observation']), r.choice(rsuite.KINDS)
                (genv.set_state_representation if which == 'state' else genv.set_observation_representation)(kind)
                ctx.count('representation switch', f'{which}->{kind}')
                ctx.case(('switch', name, t, which, kind, r.random()), True, None)
                for what, space, val in (('observation', genv.observation_space, genv.observation), ('state', genv.state_space, genv.state)):
                    if not space.contains(val):
                        bad = [k for k in val if not space[k].contains(val[k])]
                        ctx.violation(f'after switching the {which} representation to `{kind}`, the gym {what} space of {name} does not contain the {what}: keys {bad}',
                                      {'env': name, 'switch': [which, kind], 'step': t})
                try:
                    genv.step(r.randrange(genv.action_space.n))
                except Exception as e:  # noqa: BLE001
                    ctx.violation(f'a step of {name} through the gym layer raised {type(e).__name__}: {e}', {'env': name, 'step': t})
                    break


if __name__ == '__main__':
    sys.exit(core.main('C15', run, None))
