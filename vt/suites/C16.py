"""C16 -- numeric representations are faithful.  T2: the per-object encoding of EVERY object of each generated space and whole
member states against the model; oracles on the code's own output: pairs of members differing in exactly one feature
(representations equal iff ==, == implies equal hash), cellwise / same encoding at every cell, agent marker, default triple,
no-overlap channel ranges pairwise disjoint, compact values = exactly 0..N-1."""
import itertools as itt
import sys

import numpy as np

import vt.boot  # noqa: F401
import gym_gridverse.debugging as gvdebug
from gym_gridverse.grid_object import grid_object_registry

from vt import core, gen, rsuite, wire

TY = gen.TY


def rep_equal(a, b):
    return set(a) == set(b) and all(a[k].shape == b[k].shape and np.array_equal(a[k], b[k]) for k in a)


def space_objects(types, colors, is_state):
    """every object a member of the space may contain (boxes only hold Floor here: content is never encoded)"""
    cols = sorted(set(colors) | {0})
    objs = []
    for ty in sorted(set(types) | ({TY['NoneGridObject']} if is_state else {TY['NoneGridObject'], TY['Hidden']})):
        sh = gen._SHAPES[ty]
        for st in range(gen._NSTATES[ty]):
            for col in (cols if 'color' in sh else [0]):
                objs.append((ty, st, col, gen.FLOOR if 'content' in sh else None))
    return objs


def mutate(r, cs, types, colors, is_state):
    """a member differing from cs in exactly one feature (or an equal copy)"""
    g, p, o, held = cs
    h, w = len(g), len(g[0])
    kind = r.choice(['same', 'cell-type', 'cell-status', 'cell-colour', 'pos', 'heading', 'held', 'box-content'])
    pool = list(types) + ([] if is_state else [TY['Hidden']])
    if kind == 'same':
        return kind, cs
    if kind in ('cell-type', 'cell-status', 'cell-colour'):
        y, x = r.randrange(h), r.randrange(w)
        ty, st, col, content = g[y][x]
        if kind == 'cell-type':
            new = gen.rand_obj(r, pool, colors, depth=1)
        elif kind == 'cell-status':
            doors = [(i, j) for i in range(h) for j in range(w) if gen._NSTATES[g[i][j][0]] > 1]
            if not doors:
                return 'same', cs
            y, x = r.choice(doors)
            ty, st, col, content = g[y][x]
            new = (ty, (st + r.randrange(1, gen._NSTATES[ty])) % gen._NSTATES[ty], col, content)
        else:
            coloured = [(i, j) for i in range(h) for j in range(w) if 'color' in gen._SHAPES[g[i][j][0]]]
            if not coloured or len(colors) < 2:
                return 'same', cs
            y, x = r.choice(coloured)
            ty, st, col, content = g[y][x]
            new = (ty, st, r.choice([c for c in colors if c != col]), content)
        return kind, (gen.set_cell(g, (y, x), new), p, o, held)
    if kind == 'pos':
        return kind, (g, (r.randrange(h), r.randrange(w)), o, held)
    if kind == 'heading':
        if not is_state:
            return 'same', cs
        return kind, (g, p, r.randrange(4), held)
    if kind == 'held':
        return kind, (g, p, o, gen.NONE if r.random() < 0.3 else gen.rand_obj(r, list(types), colors, depth=1))
    # box content: invisible to == and to the representation
    boxes = [(i, j) for i in range(h) for j in range(w) if g[i][j][0] == TY['Box']]
    if not boxes:
        return 'same', cs
    y, x = r.choice(boxes)
    ty, st, col, content = g[y][x]
    return kind, (gen.set_cell(g, (y, x), (ty, st, col, gen.WALL if content != gen.WALL else gen.FLOOR)), p, o, held)


def run(ctx):
    r = ctx.rng
    ctx.rule = ('spaces: all single types, all pairs, random larger subsets of the registered types (boxes in observation spaces) x colour subsets x shapes; '
                'per space and representation: EVERY object of the space encoded in the hand and in a cell (default triple, disjoint channels, compact = 0..N-1, '
                'model comparison); pairs of members differing in exactly one feature (equal representation iff ==; == => equal hash); marker; states REACHED through the '
                'library\'s own dynamics after having been hashed vs equal states built from scratch (==, hash, per-object hash, all three encodings); user-registered and same-named types; '
                'non-trivial = distinct (space, representation, pair / object)')
    subsets = [[t] for t in rsuite.REPRESENTABLE] + [list(c) for c in itt.combinations(rsuite.REPRESENTABLE, 2)]
    for _ in range(40 if ctx.tier == 'quick' else 400):
        subsets.append(r.sample(rsuite.REPRESENTABLE, r.randint(3, len(rsuite.REPRESENTABLE))))
    pairs_per = 6 if ctx.tier == 'quick' else 30
    reqs, metas = [], []
    remembered = []      # (representation object, member, its representation, description): re-evaluated at the very end of the run
    gvdebug.reset_gv_debug(False)
    try:
        for types in subsets:
            for is_state in (True, False):
                tys = list(types) if is_state or r.random() < 0.4 else list(types) + [TY['Box']]
                colors = sorted(set(r.sample([0, 1, 2, 3, 4], r.randint(1, 5))))
                shape = (r.randint(2, 4), r.choice([3, 5]) if not is_state else r.randint(2, 5))
                # a space is the SET of its types: declaring one twice, or declaring the always-present NoneGridObject / Hidden explicitly,
                # in any order, is the same space and must get the same encodings
                decl = list(tys)
                if r.random() < 0.35:
                    decl += r.sample(tys, r.randint(1, min(2, len(tys))))
                    if r.random() < 0.6:
                        decl.append(TY['NoneGridObject'])
                    if not is_state and r.random() < 0.6:
                        decl.append(TY['Hidden'])
                    r.shuffle(decl)
                    ctx.count('space declaration', 'redundant')
                else:
                    ctx.count('space declaration', 'plain')
                space = rsuite.state_space(decl, colors, shape) if is_state else rsuite.obs_space(decl, colors, shape)
                conv = (lambda cs: wire.mkstate(cs)) if is_state else rsuite.as_obs
                objs = space_objects(tys, colors, is_state)
                for kind in rsuite.KINDS:
                    rep = (rsuite.make_state_representation if is_state else rsuite.make_observation_representation)(kind, space)
                    base = {'types': tys, 'declared': decl, 'colors': colors, 'shape': shape, 'kind': kind, 'is_state': is_state}
                    # ---- per-object encodings: every object of the space, in the hand and in two different cells
                    encs = {}
                    for ob in objs:
                        holdable_in_hand = ob[0] != TY['Hidden']
                        g0 = tuple(tuple(gen.FLOOR if TY['Floor'] in tys else (tys[0], 0, 0, gen.FLOOR if 'content' in gen._SHAPES[tys[0]] else None)
                                         for _ in range(shape[1])) for _ in range(shape[0]))
                        cells_ok = ob[0] != TY['NoneGridObject'] or True
                        y1, x1 = 0, 0
                        y2, x2 = shape[0] - 1, shape[1] - 1
                        cs = (gen.set_cell(gen.set_cell(g0, (y1, x1), ob), (y2, x2), ob), (0, 1 if shape[1] > 1 else 0), 0, ob if holdable_in_hand else gen.NONE)
                        out = rep.convert(conv(cs))
                        e1, e2 = [int(v) for v in out['grid'][y1, x1]], [int(v) for v in out['grid'][y2, x2]]
                        case = dict(base, obj=gen.show_obj(ob), wire_state=cs)
                        ctx.case((tuple(tys), tuple(colors), kind, is_state, ob), True, dict(base, obj=gen.show_obj(ob), enc=e1))
                        ctx.count('object encodings', kind)
                        if e1 != e2:
                            ctx.violation(f'`{kind}`: the same object is encoded differently at two cells: {e1} vs {e2}', case)
                        if holdable_in_hand and [int(v) for v in out['item']] != e1:
                            ctx.violation(f'`{kind}`: cell encoding {e1} differs from the item encoding {[int(v) for v in out["item"]]} of the same object', case)
                        if kind == 'default' and e1 != [ob[0], ob[1], ob[2]]:
                            ctx.violation(f'default encoding {e1} is not the (type, status, colour) index triple {list(ob[:3])}', case)
                        encs[ob] = e1
                        reqs.append(rsuite.request(kind, tys, colors, is_state, cs))
                        flat, floats = rsuite.flatten_impl(out, rep.space, is_state)
                        metas.append((case, flat, floats, shape, is_state))
                    # injective per object
                    seen = {}
                    for ob, e in encs.items():
                        k3 = tuple(e)
                        if k3 in seen and seen[k3][:3] != ob[:3]:
                            ctx.violation(f'`{kind}`: distinct objects {gen.show_obj(seen[k3])} and {gen.show_obj(ob)} share the encoding {e}', dict(base))
                        seen[k3] = ob
                    chans = [set(e[c] for e in encs.values()) for c in range(3)]
                    if kind in ('no-overlap', 'compact'):
                        for a, b in ((0, 1), (0, 2), (1, 2)):
                            if chans[a] & chans[b]:
                                ctx.violation(f'`{kind}`: channels {a} and {b} share the values {sorted(chans[a] & chans[b])}', dict(base))
                        if kind == 'no-overlap':
                            ordered = max(chans[0]) < min(chans[1]) and max(chans[1]) < min(chans[2])
                            if not ordered:
                                ctx.violation('`no-overlap`: the three channels are not three successive disjoint index ranges', dict(base, chans=[sorted(c) for c in chans]))
                    if kind == 'compact':
                        # "the values it uses" = the indices the encoding allocates for the space: one per type, per (type, status) and per colour
                        # of the space (a colour no object of the space can carry still owns its index)
                        ncol = len(set(colors) | {0})
                        ub = [int(v) for v in rep.space['item'].upper_bound]
                        ts_used = chans[0] | chans[1]
                        n_ts = len(chans[0]) + len(chans[1])
                        if ts_used != set(range(n_ts)):
                            ctx.violation(f'`compact`: the type and status values used {sorted(ts_used)} are not exactly 0..{n_ts - 1} without gaps', dict(base))
                        if not chans[2] <= set(range(n_ts, n_ts + ncol)):
                            ctx.violation(f'`compact`: colour values {sorted(chans[2])} are not inside the block {n_ts}..{n_ts + ncol - 1} allocated to the {ncol} colours', dict(base))
                        if ub[2] != n_ts + ncol - 1 or ub[0] != len(chans[0]) - 1 or ub[1] != n_ts - 1:
                            ctx.violation(f'`compact`: the space upper bound {ub} is not (types-1, types+statuses-1, N-1) = {[len(chans[0]) - 1, n_ts - 1, n_ts + ncol - 1]}', dict(base))
                    # ---- pairs of members
                    for _ in range(pairs_per):
                        a = rsuite.member_state(r, tys, colors, shape, is_state)
                        what, b = mutate(r, a, tys, colors, is_state)
                        sa, sb = conv(a), conv(b)
                        ra, rb = rep.convert(sa), rep.convert(sb)
                        if len(remembered) < 400 and r.random() < 0.05:
                            remembered.append((rep, sa, ra, dict(base, member=gen.show_state(a))))
                        eq, req = (sa == sb), rep_equal(ra, rb)
                        case = dict(base, mutation=what, a=gen.show_state(a), b=gen.show_state(b), wire_a=a, wire_b=b)
                        ctx.case((tuple(tys), tuple(colors), kind, is_state, a, b), True, None)
                        ctx.count('pair mutation', what)
                        ctx.count('pair equal', str(bool(eq)))
                        if eq != req:
                            ctx.violation(f'`{kind}`: members are {"equal" if eq else "different"} but their representations are {"equal" if req else "different"} (mutation: {what})', case)
                        if eq and hash(sa) != hash(sb):
                            ctx.violation('equal members hash differently', case)
                        # marker exactly at the agent's cell
                        m = ra['agent_id_grid']
                        if m.sum() != 1 or m[a[1][0], a[1][1]] != 1:
                            ctx.violation(f'agent marker is not set exactly at the agent cell {a[1]}', case)
                        # positional: every entry is the encoding of that cell's object
                        for y in range(shape[0]):
                            for x in range(shape[1]):
                                ob = a[0][y][x]
                                want = encs.get((ob[0], ob[1], ob[2], gen.FLOOR if ob[3] is not None else None))
                                if want is not None and [int(v) for v in ra['grid'][y, x]] != want:
                                    ctx.violation(f'`{kind}`: entry ({y},{x}) = {[int(v) for v in ra["grid"][y, x]]} is not the encoding {want} of its object', case)
                        reqs.append(rsuite.request(kind, tys, colors, is_state, a))
                        flat, floats = rsuite.flatten_impl(ra, rep.space, is_state)
                        metas.append((dict(case, wire_state=a), flat, floats, shape, is_state))
        # a representation is a fixed function: many other representations (other kinds, other spaces) have been built and used since these
        # results were recorded -- the same object must still give the same values for the same member
        for rep, member, r0, desc in remembered:
            ctx.case(('stable-over-time', repr(desc)), True, None)
            if not rep_equal(rep.convert(member), r0):
                ctx.violation(f'`{desc["kind"]}`: the representation of one and the same member changed after other representations were built and used', desc)
    finally:
        gvdebug.reset_gv_debug(None)
    answers = ctx.model(reqs)
    if answers is not None:
        for (case, flat, floats, shape, is_state), ans in zip(metas, answers):
            m, mf = rsuite.decode_model(ans, shape[0], shape[1], is_state)
            if m != flat or mf != floats:
                ctx.disagreement('representation: implementation and model differ',
                                 dict(case, impl=flat[-12:], model=(m[-12:] if isinstance(m, list) else m), impl_f=floats, model_f=mf))
    custom_type(ctx)
    reached_states(ctx)


def reached_states(ctx):
    """equal states hash alike and have equal representations HOWEVER they came about: a state that was hashed, then changed by the
    library's own dynamics (a door opened in place, a key picked up, the agent moved; in place or through the copying functional step), is
    compared with a state built from scratch with the same content"""
    from gym_gridverse.envs import transition_functions as tf
    from gym_gridverse.utils.fast_copy import fast_copy
    from vt import impl, tsuite
    r = ctx.rng
    types = [gen.TY[n] for n in ('Floor', 'Wall', 'Exit', 'Door', 'Key', 'MovingObstacle', 'Telepod', 'Beacon')]
    for k in range(120 if ctx.tier == 'quick' else 1200):
        cs = tsuite.interactive_world(r)
        # boxes are not representable in a state space: what they hold stands in their place
        unbox = lambda c: unbox(c[3]) if c[0] == gen.TY['Box'] else c      # noqa: E731
        cs = (tuple(tuple(unbox(c) for c in row) for row in cs[0]), cs[1], cs[2], gen.NONE if cs[3][0] == gen.TY['Box'] else cs[3])
        h, w = gen.shape_of(cs[0])
        s = wire.mkstate(cs)
        try:
            hash(s)
            for obj in [s.grid[y, x] for y in range(h) for x in range(w)] + [s.agent.grid_object]:
                hash(obj)
        except TypeError:
            continue
        hist = []
        for _ in range(r.randint(1, 5)):
            act = r.choice([0, 0, 6, 6, 6, 7, 7, 4, 5, 1, 2, 3])
            if r.random() < 0.4:
                s = fast_copy(s)
                hist.append('copy')
            try:
                for n in (0, 1, 4, 2):
                    tf.transition_function_registry[impl.TNAMES[n]](s, impl.ACTS[act], rng=None)
            except Exception:  # noqa: BLE001
                break
            hist.append(impl.ACTS[act].name)
            now = wire.cstate(s)
            fresh = wire.mkstate(now)
            ctx.case(('reached', now, tuple(hist)), now != cs, None)
            ctx.count('reached states', 'changed' if now != cs else 'unchanged')
            case = {'start': gen.show_state(cs), 'history': list(hist), 'state': gen.show_state(now)}
            try:
                bad = None
                if s != fresh or fresh != s:
                    bad = 'a state reached through a history and a state built from scratch with the same content are not =='
                elif hash(s) != hash(fresh):
                    bad = 'a state reached through a history and an equal state built from scratch hash differently'
                elif any(hash(s.grid[y, x]) != hash(fresh.grid[y, x]) for y in range(h) for x in range(w)):
                    bad = 'an object of a state reached through a history and the equal object of a state built from scratch hash differently'
                elif h > 1 and w > 1:      # (one-row / one-column shapes have no state representation: the agent's coordinates are divided by h - 1, w - 1 -- C15)
                    space = rsuite.state_space(types, [0, 1, 2, 3, 4], (h, w))
                    for kind in rsuite.KINDS:
                        rep = rsuite.make_state_representation(kind, space)
                        if not rep_equal(rep.convert(s), rep.convert(fresh)):
                            bad = f'`{kind}`: a state reached through a history and an equal state built from scratch have different representations'
            except Exception as e:  # noqa: BLE001
                bad = f'comparing / hashing / encoding a state reached through a history raised {type(e).__name__}: {e}'
            if bad:
                ctx.violation(bad, case)
                return


def custom_type(ctx):
    """a user-registered type derived from a concrete built-in one is a type of its own: own index, != its parent, different encodings"""
    from gym_gridverse.grid_object import Color, Wall, grid_object_registry as reg
    from gym_gridverse.geometry import Shape
    from gym_gridverse.spaces import StateSpace
    Wall().type_index()
    # encodings of a space do not depend on what ELSE is registered: representations built (and used) before a new type is registered
    # give the same values afterwards, and so do representations built afterwards
    probe_types = [gen.TY['Floor'], gen.TY['Wall'], gen.TY['Door'], gen.TY['Key']]
    probe_cs = (((gen.FLOOR, gen.WALL, (gen.TY['Door'], 2, 4, None)), ((gen.TY['Key'], 0, 1, None), gen.FLOOR, (gen.TY['Door'], 1, 1, None))), (0, 0), 1, (gen.TY['Key'], 0, 4, None))
    before = {}
    for is_state in (True, False):
        sp = (rsuite.state_space if is_state else rsuite.obs_space)(probe_types, [0, 1, 4], (2, 3))
        conv = (lambda cs: wire.mkstate(cs)) if is_state else rsuite.as_obs
        for kind in rsuite.KINDS:
            rep = (rsuite.make_state_representation if is_state else rsuite.make_observation_representation)(kind, sp)
            before[(is_state, kind)] = (rep, sp, conv, rep.convert(conv(probe_cs)))

    class VerifLava(Wall):          # noqa: D401  (subclassing registers it -- for this process only)
        pass
    try:
        idx = [t.type_index() for t in reg]
        ctx.case(('custom-type', tuple(idx)), True, {'registered': reg.names()})
        if len(set(idx)) != len(idx) or VerifLava.type_index() != len(reg) - 1:
            ctx.violation(f'type indices are not unique / positional after registering a subclass of Wall: {idx}', {'names': reg.names()})
            return
        if Wall() == VerifLava():
            ctx.violation('a registered subclass of Wall compares equal to Wall', {})
        for (is_state, kind), (rep, sp, conv, r0) in before.items():
            ctx.case(('registry-independence', is_state, kind), True, None)
            r1 = rep.convert(conv(probe_cs))
            fresh = (rsuite.make_state_representation if is_state else rsuite.make_observation_representation)(kind, sp)
            r2 = fresh.convert(conv(probe_cs))
            if not rep_equal(r0, r1) or not rep_equal(r0, r2):
                ctx.violation(f'`{kind}` ({"state" if is_state else "observation"}): registering an unrelated grid-object type changed the encoding of a space that does not contain it',
                              {'kind': kind, 'is_state': is_state})
        floor = reg.from_name('Floor')
        space = StateSpace(Shape(2, 2), [floor, Wall, VerifLava], [Color.NONE])
        from gym_gridverse.agent import Agent
        from gym_gridverse.geometry import Orientation, Position
        from gym_gridverse.grid import Grid
        from gym_gridverse.state import State
        SameName = type('Wall', (Wall,), {})      # a second registered type that happens to be CALLED Wall: still a type of its own
        space2 = StateSpace(Shape(2, 2), [floor, Wall, SameName], [Color.NONE])
        for kind in rsuite.KINDS:
          try:
            rep = rsuite.make_state_representation(kind, space)
            a = State(Grid([[floor(), Wall()], [floor(), floor()]]), Agent(Position(1, 0), Orientation.F))
            b = State(Grid([[floor(), VerifLava()], [floor(), floor()]]), Agent(Position(1, 0), Orientation.F))
            if rep_equal(rep.convert(a), rep.convert(b)):
                ctx.violation(f'`{kind}`: states differing in a Wall vs a registered subclass of Wall have equal representations', {})
            rep2 = rsuite.make_state_representation(kind, space2)
            c = State(Grid([[floor(), SameName()], [floor(), floor()]]), Agent(Position(1, 0), Orientation.F))
            ctx.case(('same-name-type', kind), True, None)
            if a == c or rep_equal(rep2.convert(a), rep2.convert(c)):
                ctx.violation(f'`{kind}`: states differing in a Wall vs another registered type that is also called `Wall` are equal / have equal representations', {})
            if kind == 'compact':
                vals = sorted({int(v) for st in (a, c) for v in rep2.convert(st)['grid'].reshape(-1, 3)[:, 0]})
                if vals != list(range(len(vals))) and max(vals) > 3:
                    ctx.violation(f'`compact`: type values {vals} of a space with two types called `Wall` are not consecutive', {})
          except Exception as e:  # noqa: BLE001
            ctx.violation(f'`{kind}`: encoding states of a space with a registered subclass of Wall / a second type called `Wall` raised {type(e).__name__}: {e}', {'kind': kind})
    finally:
        for cls in [c for c in list(reg.data) if c.__name__ in ('VerifLava',) or (c.__name__ == 'Wall' and c is not Wall)]:
            while cls in reg.data:
                reg.data.remove(cls)


if __name__ == '__main__':
    sys.exit(core.main('C16', run, None))
