"""C17 -- configurations build exactly the environment they describe, or are rejected.
(a) component factories vs the model `factory` (Gen/Signatures.v rows regenerated from the registries): every registry x every
    registered name (+ unknown names) x keyword sets (subsets of required / optional, extra keys, falsy values): accept / reject class,
    WHICH function was bound, WHICH keywords were bound, and that the bound values are the given objects;
(b) every shipped file: packaged copy identical, gym id -> file, builds, input tree unchanged, repeatable; three-way trajectories:
    the factory-built environment, an environment assembled BY HAND from the registered functions (functools.partial, no factory),
    and the model environment must coincide step by step;
(c) systematic corruptions of every shipped tree: expected accept / reject class (schema or value error, never an environment);
    accepted corruptions (parameters a component does not accept) must not change behaviour.
The `schema` library's validation is not modelled in Coq: (c) is an oracle on the code, stated in python."""
import copy
import random
import os
import sys

import vt.boot  # noqa: F401
from gym_gridverse.envs.yaml.factory import factory_env_from_data

from vt import comp, core, envs, gen, impl, signatures, wire


class Sentinel:
    def __init__(self, k):
        self.k = k

    def __repr__(self):
        return f'<value of {self.k}>'


FALSY = [0, 0.0, False, '', None, (), []]


def factories(ctx):
    r = ctx.rng
    sigs = signatures.signatures()
    tab = signatures.intern_table(sigs)
    reqs, metas = [], []
    per = 25 if ctx.tier == 'quick' else 250
    for (rname, rows), (_, reg, factory) in zip(sigs, signatures.REGISTRIES):
        enc_rows = [len(rows)]
        for n, req, opt in rows:
            enc_rows += [tab[n], len(req), *[tab[k] for k in req], len(opt), *[tab[k] for k in opt]]
        all_keys = sorted({k for _, rq, op in rows for k in rq + op})
        for n, req, opt in rows + [('no_such_component', [], []), ('', [], [])]:
            for _ in range(per if n in reg.keys() else 3):
                keys = [k for k in req if r.random() < 0.85] + [k for k in opt if r.random() < 0.5]
                keys += [k for k in r.sample(all_keys, min(len(all_keys), r.randint(0, 2))) if k not in keys]
                extra = [f'unaccepted_{i}' for i in range(r.randint(0, 2))]
                keys += extra
                r.shuffle(keys)
                kw = {k: (r.choice(FALSY) if r.random() < 0.35 else Sentinel(k)) for k in keys}
                try:
                    p = factory(n, **kw)
                    got = ('ok', p)
                except Exception as e:  # noqa: BLE001
                    got = ('err', wire.EXN_NAMES.get(wire.exn_code(e), type(e).__name__))
                case = {'registry': rname, 'name': n, 'given': {k: repr(v) for k, v in kw.items()}}
                ctx.count('registry', rname)
                ctx.count('factory outcome', got[0] if got[0] == 'ok' else got[1])
                ctx.case(('factory', rname, n, tuple(keys), tuple(map(repr, kw.values()))), True, case if got[0] == 'ok' else None)
                accepted = set(req) | set(opt)
                # oracle: the statement
                if n not in reg.keys() or any(k not in kw for k in req):
                    if got != ('err', 'ValueError'):
                        ctx.violation(f'factory({n!r}) with {"an unknown name" if n not in reg.keys() else "a missing required parameter"} gave {got[0] if got[0] == "ok" else got[1]}, not ValueError', case)
                elif got[0] != 'ok':
                    ctx.violation(f'factory({n!r}) rejected a complete keyword set with {got[1]}', case)
                else:
                    p = got[1]
                    bound = getattr(p, 'keywords', None)
                    if getattr(p, 'func', None) is not reg[n]:
                        ctx.violation(f'factory({n!r}) did not bind the registered function', case)
                    exp = {k: v for k, v in kw.items() if k in accepted}
                    if bound is None or set(bound) != set(exp) or any(bound[k] is not exp[k] for k in exp):
                        ctx.violation(f'factory({n!r}) bound {sorted(bound or [])}, the accepted parameters given are {sorted(exp)} (values must be passed unchanged)', case)
                # model
                ids = [tab.get(k, 10000 + i) for i, k in enumerate(keys)]
                reqs.append([18, *enc_rows, tab.get(n, 20000), len(ids), *ids])
                if got[0] == 'ok' and getattr(got[1], 'keywords', None) is not None:
                    idx = list(reg.keys()).index(n)
                    sel = [tab.get(k, 10000 + i) for i, k in enumerate(keys) if k in got[1].keywords]
                    metas.append((case, ('ok', [idx, len(sel), *sel])))
                else:
                    metas.append((case, got if got[0] == 'err' else ('ok', None)))
    answers = ctx.model(reqs)
    if answers is not None:
        for (case, got), ans in zip(metas, answers):
            m = ('ok', ans[1:]) if ans[0] == 0 else ('err', wire.EXN_NAMES.get(ans[1], '?'))
            if m != got:
                ctx.disagreement('component factory: implementation and model differ', dict(case, impl=str(got), model=str(m)))


def trajectory(env, desc, ops, seed, debug=True):
    outs, log, tape = envs.run_ops(env, desc, ops, debug, seed)
    return outs, log, tape


def _shipped_body(ctx):
    r = ctx.rng
    from gym_gridverse import gym as gvgym
    files = {os.path.basename(f): f for f in envs.shipped_files()}
    for gid, fname in sorted(gvgym.STRING_TO_YAML_FILE.items()):
        pk = os.path.join(vt.boot.REPO, 'gym_gridverse', 'registered_envs', fname)
        if not os.path.exists(pk):
            ctx.violation(f'gym id {gid} points to a missing packaged file {fname}', {'id': gid})
        elif fname not in files or open(pk, 'rb').read() != open(files[fname], 'rb').read():
            ctx.violation(f'the packaged copy of {fname} differs from yaml/{fname}', {'file': fname})
    reqs, metas = [], []
    seeds = 3 if ctx.tier == 'quick' else 12
    steps = 45 if ctx.tier == 'quick' else 150
    for name, data, desc in envs.shipped_envs():
        before = copy.deepcopy(data)
        try:
            env1 = factory_env_from_data(data)
        except Exception as e:  # noqa: BLE001
            ctx.violation(f'shipped configuration {name} does not build: {type(e).__name__}: {e}', {'file': name})
            continue
        if data != before:
            ctx.violation(f'building {name} modified the input data', {'file': name})
        env2 = factory_env_from_data(copy.deepcopy(before))
        # the action space is the listed actions IN THE LISTED ORDER (index i = the i-th listed action)
        listed = list(desc['actions'])
        r.shuffle(listed)
        variant = copy.deepcopy(before)
        variant['action_space'] = [envs.ANAMES[a] for a in listed]
        try:
            ev = factory_env_from_data(variant)
            got_order = [envs.ACTS.index(a) for a in ev.action_space.actions]
            if got_order != listed or [envs.ACTS.index(ev.action_space.int_to_action(i)) for i in range(len(listed))] != listed:
                ctx.violation(f'{name}: the action space built from the listed actions {listed} is {got_order}', {'file': name, 'listed': listed})
        except Exception as e:  # noqa: BLE001
            ctx.violation(f'{name}: a permuted action list does not build: {type(e).__name__}', {'file': name, 'listed': listed})
        # the two space sections are independent declarations: each built space lists exactly what ITS section lists (here the state-space
        # section is made the richer one, then the observation-space section)
        for rich, poor in (('state_space', 'observation_space'), ('observation_space', 'state_space')):
            v2 = copy.deepcopy(before)
            extra_t = [n for n in ('Door', 'Key', 'Beacon', 'Telepod', 'MovingObstacle') if n not in v2[rich]['objects']][:2]
            extra_c = [c for c in ('YELLOW', 'BLUE', 'GREEN', 'RED') if c not in v2[rich]['colors']][:2]
            v2[rich]['objects'] = list(v2[rich]['objects']) + extra_t
            v2[rich]['colors'] = list(v2[rich]['colors']) + extra_c
            try:
                e2 = factory_env_from_data(copy.deepcopy(v2))
                d2 = envs.desc_of_data(v2)
                for label, sp, tys, cols in (('state', e2.state_space, d2['state_types'], d2['state_colors']), ('observation', e2.observation_space, d2['obs_types'], d2['obs_colors'])):
                    got_t = [t.type_index() for t in sp.object_types]
                    got_c = sorted(int(c.value) for c in sp.colors)
                    ctx.case(('space-sections', name, rich, label), True, None)
                    if got_t != list(tys) or got_c != sorted(set(cols) | {0}):
                        ctx.violation(f'{name}: with a richer {rich} section, the built {label} space lists types {got_t} / colours {got_c}; its section describes types {list(tys)} / colours {sorted(set(cols) | {0})}',
                                      {'file': name, 'richer_section': rich, 'added_types': extra_t, 'added_colours': extra_c})
            except Exception as e:  # noqa: BLE001
                ctx.violation(f'{name}: a configuration whose {rich} section lists more than its {poor} section does not build: {type(e).__name__}: {e}', {'file': name, 'added_types': extra_t})
        if [envs.ACTS.index(a) for a in env1.action_space.actions] != desc['actions']:
            ctx.violation(f'{name}: the action space is not the listed actions in the listed order', {'file': name})
        # building from the FILE is repeatable too: two builds are two independent environments
        from gym_gridverse.envs.yaml.factory import factory_env_from_yaml
        path = os.path.join(vt.boot.REPO, 'yaml', name)
        f1, f2 = factory_env_from_yaml(path), factory_env_from_yaml(path)
        if f1 is f2 or f1.state_space is None:
            ctx.violation(f'{name}: building twice from the same file returns one shared environment object', {'file': name})
        else:
            sd = r.randrange(1 << 30)
            acts = [r.choice(desc['actions']) for _ in range(12)]
            f1.set_seed(sd); f2.set_seed(sd)
            try:
                f1.reset(); f2.reset()
            except Exception as e:  # noqa: BLE001
                ctx.violation(f'{name}: resetting an environment built from the file raised {type(e).__name__}: {e}', {'file': name, 'seed': sd})
                continue
            t1, t2 = [wire.cstate(f1.state)], [wire.cstate(f2.state)]
            def one(env, a):
                try:
                    return (env.step(envs.ACTS[a]), wire.cstate(env.state))
                except Exception as e:  # noqa: BLE001
                    return ('raised', type(e).__name__)
            for a in acts:          # interleaved
                t1.append(one(f1, a))
                t2.append(one(f2, a))
            if any(isinstance(x, tuple) and x and x[0] == 'raised' for x in t1 + t2):
                ctx.violation(f'{name}: stepping an environment built from the file raised {[x[1] for x in t1 + t2 if isinstance(x, tuple) and x and x[0] == "raised"][0]}', {'file': name, 'seed': sd, 'actions': acts})
            elif not core.same(t1, t2):
                ctx.violation(f'{name}: two environments built from the same file and seeded alike diverge when used interleaved (shared state)', {'file': name, 'seed': sd})
        comp.DIRECT = True
        try:
            hand = comp.build_env(desc)
        finally:
            comp.DIRECT = False
        # the spaces a file describes are the spaces built by hand from the same lists: same verdict on states in which the agent holds an
        # object of each declared type (the hand is a dimension trajectories from reset rarely reach)
        try:
            env1.set_seed(0)
            base_state = env1.functional_reset()
            for ty in desc['state_types']:
                probe = wire.cstate(base_state)
                col = next((c for c in desc['state_colors'] if c != 0), 0)
                held = gen.rand_obj(random.Random(ty), [ty], [col], depth=0)
                st = wire.mkstate((probe[0], probe[1], probe[2], held))
                v1, vh = env1.state_space.contains(st), hand.state_space.contains(st)
                ctx.case(('held-membership', name, ty), True, None)
                if v1 != vh:
                    ctx.violation(f'{name}: the state space built from the file says {v1} and the one built by hand says {vh} for a state whose agent holds {gen.show_obj(held)}',
                                  {'file': name, 'held': gen.show_obj(held)})
        except Exception as e:  # noqa: BLE001
            ctx.violation(f'{name}: membership probe of the file-built state space raised {type(e).__name__}: {e}', {'file': name})
        for _ in range(seeds):
            ops = [('reset', None)]
            for _t in range(steps):
                ops.append(('step', r.choice(desc['actions'])))
                ops.append(r.choice([('obs', None), ('state', None), ('obs', None)]))
                if r.random() < 0.04:
                    ops.append(('reset', None))
            seed = r.randrange(1 << 30)
            o1, log1, tape1 = trajectory(env1, desc, ops, seed)
            o2, _, _ = trajectory(env2, desc, ops, seed)
            oh, logh, _ = trajectory(hand, desc, ops, seed)
            case = {'file': name, 'seed': seed, 'ops': len(ops)}
            ctx.count('shipped file', name)
            ctx.case(('traj', name, seed), True, case)
            if o1 != o2:
                ctx.violation(f'{name}: building twice gives environments that behave differently', case)
            if o1 != oh or impl.norm_log(log1) != impl.norm_log(logh):
                k = next((i for i, (a, b) in enumerate(zip(o1, oh)) if a != b), None)
                ctx.violation(f'{name}: the factory-built environment and the one assembled by hand from the named components differ at operation {k} ({ops[k] if k is not None else "draw log"})',
                              dict(case, first_difference=k, factory=str(o1[k])[:300] if k is not None else None, by_hand=str(oh[k])[:300] if k is not None else None))
            reqs.append(envs.env_request(desc, True, ops, tape1))
            metas.append((name, desc, ops, o1, log1))
    answers = ctx.model(reqs)
    if answers is not None:
        for (name, desc, ops, outs, log), ans in zip(metas, answers):
            kind, val, mlog = envs.decode_env(desc, ans)
            if kind != 'ok' or not core.same(val, outs) or impl.norm_log(mlog) != impl.norm_log(log):
                first = next((i for i, (a, b) in enumerate(zip(val or [], outs)) if a != b), None) if kind == 'ok' else None
                ctx.disagreement('shipped configuration: factory-built environment and model environment differ',
                                 {'file': name, 'first_difference': first, 'model_kind': kind})


# ---- corruptions: (description, mutate(data) -> bool applied, expected) with expected in {'SchemaError', 'ValueError', 'reject', 'same'}
def corruptions(data):
    out = []
    top = ['state_space', 'observation_space', 'reset_function', 'transition_functions', 'reward_functions', 'observation_function', 'terminating_function']
    for k in top:
        out.append((f'delete top-level key {k}', (lambda d, k=k: d.pop(k)), 'SchemaError'))
    out.append(('unknown top-level key', lambda d: d.__setitem__('no_such_key', 1), 'SchemaError'))
    for k in ('reset_function', 'observation_function', 'terminating_function'):
        out.append((f'unknown component name in {k}', (lambda d, k=k: d[k].__setitem__('name', 'no_such_component')), 'ValueError'))
        out.append((f'component entry without a name in {k}', (lambda d, k=k: d[k].pop('name')), 'SchemaError'))
        out.append((f'unaccepted parameter in {k}', (lambda d, k=k: d[k].__setitem__('unaccepted_parameter', 3)), 'same'))
    for k in ('transition_functions', 'reward_functions'):
        out.append((f'unknown component name in {k}', (lambda d, k=k: d[k][-1].__setitem__('name', 'no_such_component')), 'ValueError'))
        out.append((f'empty list {k}', (lambda d, k=k: d.__setitem__(k, [])), 'SchemaError'))
        out.append((f'unaccepted parameter in {k}', (lambda d, k=k: d[k][0].__setitem__('unaccepted_parameter', 'x')), 'same'))
    sigs = {n: (rq, op) for _, rows in signatures.signatures() for n, rq, op in rows}
    for key in sigs.get(data['reset_function']['name'], ([], []))[0]:
        if key in data['reset_function']:
            out.append((f'reset function without its required parameter {key}', (lambda d, key=key: d['reset_function'].pop(key)), 'ValueError'))
    if 'area' in data['observation_function']:
        out.append(('observation function without its required parameter area', lambda d: d['observation_function'].pop('area'), 'ValueError'))
    for i, rw in enumerate(data['reward_functions']):
        for key in sigs.get(rw['name'], ([], []))[0]:
            if key in rw:
                out.append((f'reward {rw["name"]} without its required parameter {key}', (lambda d, i=i, key=key: d['reward_functions'][i].pop(key)), 'ValueError'))
    for bad, what in (([5], 'wrong length'), ([5, 5, 5], 'wrong length'), ([0, 5], 'non-positive'), ([-3, 5], 'non-positive'), ([5.5, 5], 'non-integer'),
                      (['5', 5], 'non-integer'), (5, 'not a list')):
        out.append((f'shape {bad} ({what})', (lambda d, bad=bad: d['reset_function'].__setitem__('shape', bad)), 'SchemaError'))
    for sp in ('state_space', 'observation_space'):
        out.append((f'unknown colour in {sp}', (lambda d, sp=sp: d[sp]['colors'].append('PURPLE')), 'SchemaError'))
        out.append((f'duplicate colour in {sp}', (lambda d, sp=sp: d[sp]['colors'].append(d[sp]['colors'][0])), 'SchemaError'))
        out.append((f'empty colours in {sp}', (lambda d, sp=sp: d[sp].__setitem__('colors', [])), 'SchemaError'))
        out.append((f'duplicate object type in {sp}', (lambda d, sp=sp: d[sp]['objects'].append(d[sp]['objects'][0])), 'SchemaError'))
        out.append((f'empty objects in {sp}', (lambda d, sp=sp: d[sp].__setitem__('objects', [])), 'SchemaError'))
        out.append((f'unknown object type in {sp}', (lambda d, sp=sp: d[sp]['objects'].append('NoSuchObject')), 'ValueError'))
        out.append((f'unknown key in {sp}', (lambda d, sp=sp: d[sp].__setitem__('shape', [3, 3])), 'SchemaError'))
    out.append(('unknown action', lambda d: d.__setitem__('action_space', ['MOVE_FORWARD', 'JUMP']), 'SchemaError'))
    out.append(('duplicate action', lambda d: d.__setitem__('action_space', ['MOVE_FORWARD', 'MOVE_FORWARD']), 'SchemaError'))
    out.append(('empty action space', lambda d: d.__setitem__('action_space', []), 'SchemaError'))
    if 'colors' in data['reset_function']:
        out.append(('unknown colour in the reset function', lambda d: d['reset_function']['colors'].append('PURPLE'), 'SchemaError'))
    if 'object_type' in data['reset_function']:
        out.append(('unknown object type in the reset function', lambda d: d['reset_function'].__setitem__('object_type', 'NoSuchObject'), 'ValueError'))
    if 'layout' in data['reset_function']:
        out.append(('layout of wrong length', lambda d: d['reset_function'].__setitem__('layout', [2]), 'SchemaError'))
    return out


def corrupted(ctx):
    r = ctx.rng
    for name, data, desc in envs.shipped_envs():
        base = None
        for what, mutate, expected in corruptions(data):
            d = copy.deepcopy(data)
            try:
                mutate(d)
            except (KeyError, IndexError):
                continue
            before = copy.deepcopy(d)
            try:
                env = factory_env_from_data(d)
                got = 'ok'
            except Exception as e:  # noqa: BLE001
                env = None
                got = wire.EXN_NAMES.get(wire.exn_code(e), type(e).__name__)
            case = {'file': name, 'corruption': what, 'outcome': got}
            ctx.count('corruption outcome', got)
            ctx.case(('corrupt', name, what), True, case if len(ctx.samples) < 5 else None)
            if d != before:
                ctx.violation(f'{name} [{what}]: building modified the input data', case)
            if expected in ('SchemaError', 'ValueError'):
                if got == 'ok':
                    ctx.violation(f'{name} [{what}]: a malformed configuration yields an environment', case)
                elif got not in ('SchemaError', 'ValueError'):
                    ctx.violation(f'{name} [{what}]: rejected with {got}, which is neither a schema error nor a value error', case)
                elif got != expected:
                    ctx.count('rejected with the other class', f'{what}: {got}')
            elif expected == 'same':
                if got != 'ok':
                    ctx.violation(f'{name} [{what}]: a parameter the component does not accept was not ignored ({got})', case)
                    continue
                if base is None:
                    base = factory_env_from_data(copy.deepcopy(data))
                ops = [('reset', None)] + [x for _ in range(25) for x in (('step', r.choice(desc['actions'])), ('obs', None))]
                seed = r.randrange(1 << 30)
                if envs.run_ops(env, desc, ops, True, seed)[0] != envs.run_ops(base, desc, ops, True, seed)[0]:
                    ctx.violation(f'{name} [{what}]: an ignored parameter changed the behaviour', case)


def shipped(ctx):
    """the names in a configuration mean the LIBRARY's components: while user classes that happen to be called `Key` and `Wall` exist in the
    process (defining a GridObject subclass registers it), every shipped file still builds the environment assembled by hand from the
    library classes"""
    from gym_gridverse.grid_object import Key as LibKey, Wall as LibWall, grid_object_registry as reg
    user = [type('Key', (LibKey,), {}), type('Wall', (LibWall,), {})]
    try:
        _shipped_body(ctx)
    finally:
        for cls in user:
            while cls in reg.data:
                reg.data.remove(cls)


# ---- the configuration layer against its model (Model/Schema.v, run on the tables regenerated from the live schema objects) ----
def impl_verdict(tree):
    """-> ('built', env) | ('schema'|'value'|'constructed'|'other', exception name)"""
    import traceback
    from schema import SchemaError
    try:
        given = copy.deepcopy(tree)
        env = factory_env_from_data(given)
        if given != tree:
            return ('modified-input', 'the configuration handed in was modified by the build')
        try:
            factory_env_from_data(given)          # the same data builds again
        except Exception as e:  # noqa: BLE001
            return ('not-repeatable', f'{type(e).__name__}: {e}')
        return ('built', env)
    except SchemaError as e:
        return ('schema', type(e).__name__)
    except Exception as e:  # noqa: BLE001
        post = any(fr.name == 'factory_env_from_data' and fr.line and any(w in fr.line for w in ('reset_function()', 'observation_function(state)', '.build()', 'GridWorld('))
                   for fr in traceback.extract_tb(e.__traceback__))
        if post:
            return ('constructed', type(e).__name__)     # every component was constructed; the first reset / observation failed
        return ('value' if isinstance(e, ValueError) else 'other', type(e).__name__)


def _comp_of(p, fk, intern):
    """(registry index, bound keys) of a functools.partial made by a component factory, plus the same for the entries of its list parameters"""
    reg = signatures.REGISTRIES[fk][1]
    idx = next((i for i, n in enumerate(reg.keys()) if reg[n] is p.func), None)
    kids = []
    for key, sub_fk in (('transition_functions', 1), ('reward_functions', 2), ('terminating_functions', 5)):
        if key in p.keywords:
            kids += [_comp_of(q, sub_fk, intern) for q in p.keywords[key]]
    for key, sub_fk in (('reward_function', 2), ('visibility_function', 4)):
        if key in p.keywords and hasattr(p.keywords[key], 'func'):
            kids.append(_comp_of(p.keywords[key], sub_fk, intern))
    return (fk, idx, [intern(k) for k in p.keywords], kids)


def _read_comp(R):
    fk, idx = R.z(), R.z()
    bound = [R.z() for _ in range(R.z())]
    kids = [_read_comp(R) for _ in range(R.z())]
    return (fk, idx, bound, kids)


def _bound_kids(c):
    """the model lists the components built for EVERY reserved key; the code keeps those whose key the function accepts"""
    return c


def mutate_tree(r, tree, strings):
    """one random edit somewhere in a configuration tree (paths chosen uniformly over all nodes)"""
    t = copy.deepcopy(tree)
    paths = []

    def walk(node, path):
        paths.append(path)
        if isinstance(node, dict):
            for k in node:
                walk(node[k], path + [k])
        elif isinstance(node, list):
            for i in range(len(node)):
                walk(node[i], path + [i])
    walk(t, [])
    path = r.choice(paths[1:] or paths)
    parent = t
    for k in path[:-1]:
        parent = parent[k]
    node = parent[path[-1]]
    scalars = [None, True, False, 0, 1, -1, 2, 7, 2.5, '', 'x', 'NONE', 'PURPLE', 'Wall', 'Lava', 'MOVE_FORWARD', 'JUMP', 'manhattan', 'chain', 'reduce_sum', 'reach_exit',
               'no_such_component'] + r.sample(strings, 3)
    entries = [{'name': 'move_agent'}, {'name': 'reach_exit', 'reward_on': 2.0}, {'name': 'no_such_component'}, {'name': 5}, {}, {'name': 'reduce_any', 'terminating_functions': [{'name': 'reach_exit'}]},
               {'name': 'reduce_any', 'terminating_functions': []}, {'name': 'getting_closer', 'object_type': 'Exit', 'distance_function': 'manhattan'},
               {'name': 'getting_closer', 'object_type': 'Lava'}, {'name': 'getting_closer', 'object_type': 'Exit', 'distance_function': 'chebyshev'},
               {'name': 'from_visibility', 'area': [[-2, 0], [-1, 1]], 'visibility_function': {'name': 'raytracing'}},
               {'name': 'from_visibility', 'area': [[-2, 0], [-1, 1]], 'visibility_function': {'name': 'no_such_component'}},
               {'name': 'from_visibility', 'area': [[-2, 0], [-1, 1]], 'visibility_function': 5}, {'name': 'fully_transparent', 'area': [[0, -2], [-1, 1]]}]
    values = scalars + [[], [1, 2], [3, 0], [2, 2, 2], ['RED'], ['RED', 'RED'], ['Wall', 'Floor'], [r.choice(entries)], [[-1, 0], [0, 0]]] + entries
    kind = r.random()
    if isinstance(node, dict) and kind < 0.55:
        op = r.random()
        keys = list(node)
        new_keys = ['shape', 'layout', 'colors', 'object_type', 'reward_function', 'reward_functions', 'transition_functions', 'terminating_functions', 'reset_function',
                    'transition_function', 'terminating_function', 'reset_functions', 'distance_function', 'visibility_function', 'area', 'name', 'unaccepted_parameter',
                    'objects', 'action_space', 5, 'x']
        if op < 0.3 and keys:
            del node[r.choice(keys)]
        elif op < 0.75:
            node[r.choice(new_keys)] = copy.deepcopy(r.choice(values))
        elif keys:
            k = r.choice(keys)
            node[r.choice(new_keys)] = node.pop(k)
    elif isinstance(node, list) and kind < 0.55:
        op = r.random()
        if op < 0.25 and node:
            del node[r.randrange(len(node))]
        elif op < 0.5 and node:
            node.append(copy.deepcopy(r.choice(node)))
        elif op < 0.8:
            node.insert(r.randrange(len(node) + 1), copy.deepcopy(r.choice(values)))
        else:
            del node[:]
    else:
        parent[path[-1]] = copy.deepcopy(r.choice(values))
    return t, path


def config_trees(ctx):
    from vt import access, schematab
    r = ctx.rng
    strings = sorted(schematab.all_strings() | set(signatures.intern_table()))
    per = 40 if ctx.tier == 'quick' else 400
    jobs = []
    for name, data, desc in envs.shipped_envs():
        jobs.append((name, 'as shipped', data))
        for what, mutate, expected in corruptions(data):
            d = copy.deepcopy(data)
            try:
                mutate(d)
            except (KeyError, IndexError):
                continue
            jobs.append((name, what, d))
        # nested entries under keys the schemas do NOT reserve (they are validated late, by the factory of their own kind)
        for vis in ({'name': 'raytracing'}, {'name': 'partially_occluded'}, {'name': 'raytracing', 'absolute_counts': False, 'threshold': 0.5}, {'name': 'no_such_component'}, {'nome': 'raytracing'}):
            d = copy.deepcopy(data)
            d['observation_function'] = {'name': 'from_visibility', 'area': copy.deepcopy(data['observation_function']['area']), 'visibility_function': vis}
            jobs.append((name, f'observation through from_visibility with the nested entry {vis}', d))
        for _ in range(per):
            d, path = mutate_tree(r, data, strings)
            if r.random() < 0.3:
                d, path2 = mutate_tree(r, d, strings)
                path = path + ['+'] + path2
            jobs.append((name, 'random edit at ' + '/'.join(map(str, path)), d))
    # names that point into a module that does not exist are unknown names: never an environment
    for name, data, desc in envs.shipped_envs():
        spots = [('reset_function',), ('observation_function',), ('terminating_function',), ('transition_functions', 0), ('reward_functions', 0)]
        for spot in spots:
            d = copy.deepcopy(data)
            node = d
            for k in spot:
                node = node[k]
            node['name'] = 'no_such_module_vt:' + str(node['name'])
            try:
                factory_env_from_data(copy.deepcopy(d))
                ctx.violation(f'{name}: the component name `{node["name"]}` (a module that does not exist) yields an environment', {'file': name, 'where': list(spot)})
            except Exception:  # noqa: BLE001
                pass
            ctx.case(('missing-module', name, spot), True, None)
        for sp in ('state_space', 'observation_space'):
            d = copy.deepcopy(data)
            d[sp]['objects'] = ['no_such_module_vt:' + d[sp]['objects'][0]] + list(d[sp]['objects'][1:])
            try:
                factory_env_from_data(copy.deepcopy(d))
                ctx.violation(f'{name}: the object type `{d[sp]["objects"][0]}` (a module that does not exist) in {sp} yields an environment', {'file': name})
            except Exception:  # noqa: BLE001
                pass
            ctx.case(('missing-module', name, sp), True, None)
    reqs, metas = [], []
    for name, what, tree in jobs:
        intern = schematab.Interner()
        try:
            req = [19, 0] + schematab.cfg_wire(tree, intern)
        except ValueError:
            continue
        got = impl_verdict(tree)
        if got[0] in ('modified-input', 'not-repeatable'):
            ctx.violation(f'{name} [{what}]: ' + ('building modified the input data' if got[0] == 'modified-input' else f'a configuration that builds does not build a second time from the same data ({got[1]})'),
                          {'file': name, 'edit': what, 'tree': tree if len(repr(tree)) < 4000 else None})
            continue
        reqs.append(req)
        metas.append((name, what, tree, got, intern))
    answers = ctx.model(reqs)
    if answers is None:
        return
    for (name, what, tree, got, intern), ans in zip(metas, answers):
        case = {'file': name, 'edit': what, 'implementation': got[0] if got[0] != 'built' else 'built', 'tree': tree if len(repr(tree)) < 4000 else None}
        if ans[0] == 1:
            mv = {8: 'schema', 2: 'value'}.get(ans[1], 'outside')
        elif ans[0] == 0:
            mv = 'built'
        else:
            ctx.disagreement('configuration tree: undecodable answer of the model', case)
            continue
        ctx.count('configuration tree (model verdict)', mv)
        ctx.count('configuration tree (code verdict)', got[0] + ('' if got[0] in ('built', 'schema', 'value') else ':' + str(got[1])))
        ctx.case(('tree', name, what, repr(tree)), mv != 'built' or what != 'as shipped', None)
        if mv == 'outside':
            continue            # custom module names, keys that are not strings, areas that are not integer pairs: outside the modelled domain
        same = (mv == got[0]) or (mv == 'built' and got[0] == 'constructed')
        if not same:
            if got[0] == 'built' and mv in ('schema', 'value'):
                ctx.violation(f'{name} [{what}]: a configuration the schemas / factories of the pinned code reject ({mv} error) now yields an environment', case)
            else:
                ctx.disagreement(f'configuration tree: the code says `{got[0]}{"" if got[0] in ("built", "schema", "value") else " " + str(got[1])}`, the model says `{mv}`', case)
            continue
        if got[0] != 'built':
            continue
        # what was built is what the tree describes
        env = got[1]
        R = wire.Reader(ans[1:])
        lists = [[R.z() for _ in range(R.z())] for _ in range(5)]
        comps = [_read_comp(R) for _ in range(5)]
        st, sc, acts, ot, oc = lists
        have = ([t.type_index() for t in env.state_space.object_types], sorted(int(c.value) for c in env.state_space.colors), [envs.ACTS.index(a) for a in env.action_space.actions],
                [t.type_index() for t in env.observation_space.object_types], sorted(int(c.value) for c in env.observation_space.colors))
        want = (st, sorted(set(sc) | {0}), acts, ot, sorted(set(oc) | {0}))
        if have != want:
            ctx.disagreement('configuration tree: the spaces / actions of the built environment are not the described ones', dict(case, built=str(have), described=str(want)))
            continue
        try:
            parts = [access.component(env, w) for w in ('reset',)] + [access.component(env, 'transition'), access.component(env, 'reward'),
                                                                       access.component(env, 'observation_f'), access.component(env, 'termin')]
        except access.AccessError:
            ctx.count('configuration tree', 'components of the built environment not inspected')
            continue
        for fk, p, mc in zip((0, 1, 2, 3, 5), parts, comps):
            ic = _comp_of(p, fk, intern)

            def flat(c, depth):
                # the code keeps nested components only under keys the function accepts; the model lists all that were built: compare names / bound keys
                return (c[0], c[1], sorted(c[2])) if depth == 0 else (c[0], c[1], sorted(c[2]), [flat(k, depth - 1) for k in c[3]])
            a, b = flat(ic, 0), flat(mc, 0)
            if a != b or (fk in (1, 2) and [flat(k, 0) for k in ic[3]] != [flat(k, 0) for k in mc[3]]):
                ctx.disagreement('configuration tree: a component of the built environment is not the described one',
                                 dict(case, registry=signatures.REGISTRIES[fk][0], built=str(ic), described=str(mc)))
                break


def gym_ids(ctx):
    """every registered gym id MAKES the environment its packaged file describes: gym.make(id) (through gym's own registry, the way a user gets
    an environment) next to an environment built from that file, same seed, same actions -- same states and rewards"""
    import gym
    from gym_gridverse import gym as gvgym
    r = ctx.rng
    for gid, fname in sorted(gvgym.STRING_TO_YAML_FILE.items()):
        path = os.path.join(vt.boot.REPO, 'gym_gridverse', 'registered_envs', fname)
        if not os.path.exists(path):
            continue          # reported by the table check above
        try:
            made = gym.make(gid)
            inner = made.unwrapped.outer_env.inner_env
        except Exception as e:  # noqa: BLE001
            ctx.violation(f'gym.make({gid!r}) raised {type(e).__name__}: {e}', {'id': gid, 'file': fname})
            continue
        ref = factory_env_from_data(envs.load_yaml(path))
        seed = r.randrange(1 << 30)
        inner.set_seed(seed)
        ref.set_seed(seed)
        acts = [r.randrange(len(ref.action_space.actions)) for _ in range(12)]
        ctx.case(('gym-id', gid), True, {'id': gid, 'file': fname})
        ctx.count('gym id', 'made')
        try:
            same = len(inner.action_space.actions) == len(ref.action_space.actions)
            inner.reset()
            ref.reset()
            same = same and core.same(wire.cstate(inner.state), wire.cstate(ref.state))
            for a in acts:
                if not same:
                    break
                same = inner.step(inner.action_space.actions[a]) == ref.step(ref.action_space.actions[a]) and core.same(wire.cstate(inner.state), wire.cstate(ref.state))
        except Exception as e:  # noqa: BLE001
            ctx.violation(f'the environment made for gym id {gid} raised {type(e).__name__} while being driven beside the one built from {fname}', {'id': gid, 'file': fname})
            continue
        if not same:
            ctx.violation(f'gym id {gid} does not make the environment its packaged file {fname} describes (same seed, same actions: different states / rewards)',
                          {'id': gid, 'file': fname, 'seed': seed, 'actions': acts})


def custom_example(ctx):
    """examples/coin_env.yaml names CUSTOM components (`module:name`): built LATE in the process -- after dozens of other configurations -- it must
    still resolve every name (the module is imported on demand, its grid-object and functions register themselves then) and behave like the
    environment assembled by hand from that module's functions"""
    from functools import partial
    from gym_gridverse.envs import observation_functions as ofs, reward_functions as rfs, terminating_functions as tfs, transition_functions as trfs
    from gym_gridverse.envs.gridworld import GridWorld
    from gym_gridverse.geometry import Area, Shape
    from gym_gridverse.grid_object import Color, Floor, Wall, grid_object_registry as reg
    from gym_gridverse.spaces import ActionSpace, ObservationSpace, StateSpace
    r = ctx.rng
    path = os.path.join(vt.boot.REPO, 'examples', 'coin_env.yaml')
    if not os.path.exists(path):
        return
    data = envs.load_yaml(path)
    before = copy.deepcopy(data)
    n_types = len(reg.data)
    try:
        try:
            env = factory_env_from_data(data)
        except Exception as e:  # noqa: BLE001
            ctx.violation(f'examples/coin_env.yaml does not build (after other configurations were built in this process): {type(e).__name__}: {e}', {'file': 'examples/coin_env.yaml'})
            return
        if data != before:
            ctx.violation('building examples/coin_env.yaml modified the input data', {'file': 'examples/coin_env.yaml'})
        try:
            import coin_env as ce
            ce.Coin, ce.coin_maze, ce.collect_coin_transition, ce.collect_coin_reward, ce.no_more_coins
        except (ImportError, AttributeError):
            ctx.count('custom example', 'the example module no longer has the names the hand assembly uses: comparison skipped')
            return
        acts = [envs.ACTS[envs.ANAMES.index(n)] for n in before['action_space']]
        a = before['observation_function']['area']
        area = Area(tuple(a[0]), tuple(a[1]))
        hand_reset = ce.coin_maze
        s0 = hand_reset(rng=__import__('numpy').random.default_rng(0))
        hand = GridWorld(
            StateSpace(s0.grid.shape, [Wall, Floor, ce.Coin], [Color.NONE]), ActionSpace(acts),
            ObservationSpace(Shape(area.height, area.width), [Wall, Floor, ce.Coin], [Color.NONE]),
            hand_reset,
            partial(trfs.chain, transition_functions=[trfs.move_agent, trfs.turn_agent, ce.collect_coin_transition]),
            partial(ofs.partially_occluded, area=area),
            partial(rfs.reduce_sum, reward_functions=[partial(rfs.living_reward, reward=-0.1), ce.collect_coin_reward]),
            ce.no_more_coins)
        for k in range(4 if ctx.tier == 'quick' else 30):
            seed = r.randrange(1 << 30)
            env.set_seed(seed)
            hand.set_seed(seed)
            env.reset()
            hand.reset()
            ok = env.state == hand.state
            for _ in range(40):
                i = r.randrange(len(acts))
                ok = ok and env.step(acts[i]) == hand.step(acts[i]) and env.state == hand.state and env.observation == hand.observation
            ctx.case(('custom-example', k), True, None)
            ctx.count('custom example', 'trajectory')
            if not ok:
                ctx.violation('examples/coin_env.yaml: the factory-built environment and the one assembled by hand from the module it names behave differently', {'file': 'examples/coin_env.yaml', 'seed': seed})
                break
    finally:
        del reg.data[n_types:]


def run(ctx):
    ctx.rule = ('(a) 6 registries x every registered name (+ unknown) x random keyword sets incl. missing required, extra and falsy-valued keys; '
                '(b) 21 shipped files: copies, ids, build, purity, repeatability, three-way trajectories (factory / by hand / model) with mid-episode resets; '
                '(c) ~45 systematic corruptions per shipped file with expected accept / reject class; (d) the configuration layer against its model: every shipped tree, every '
                'systematic corruption and random edits of the trees (delete / add / rename keys, replace nodes by scalars, lists, entries; 40 per file, thorough 400): verdict '
                '(schema error / value error / built) and, when built, spaces, actions and the component tree; non-trivial = every case')
    factories(ctx)
    shipped(ctx)
    corrupted(ctx)
    config_trees(ctx)
    gym_ids(ctx)
    custom_example(ctx)          # last: importing the example module registers its components for the rest of the process


if __name__ == '__main__':
    sys.exit(core.main('C17', run, None))
