"""C18 -- geometry algebra: T1 tables (Gen/Tables.v) + T2 correspondence + direct oracles on the code."""
import itertools as itt
import sys

import vt.boot  # noqa: F401
from gym_gridverse.action import Action
from gym_gridverse.envs.utils import get_next_position
from gym_gridverse.geometry import Area, Orientation, Position, Transform, get_manhattan_boundary
from gym_gridverse.grid import Grid

from vt import core, gen, wire

ORIS = list(Orientation)
ACTS = list(Action)


def tags(n):
    base = gen.all_objects(depth=0)
    objs, layer = list(base), list(base)
    while len(objs) < n:            # boxes of boxes of ...: as many pairwise distinct objects as the largest grid needs
        layer = [(gen.TY['Box'], 0, 0, b) for b in layer]
        objs += layer
    return objs[:n]


def rand_int(r, big):
    k = r.random()
    if k < 0.5:
        return r.randint(-6, 6)
    if k < 0.8 or not big:
        return r.randint(-1000, 1000)
    return r.randint(-(1 << 60), 1 << 60)


def rand_pos(r, big=True):
    return (rand_int(r, big), rand_int(r, big))


def rand_area(r, big=True, small=False):
    if small:
        y0, x0 = r.randint(-4, 4), r.randint(-4, 4)
        return (y0, y0 + r.randint(0, 4), x0, x0 + r.randint(0, 4))
    y0, y1 = sorted((rand_int(r, big), rand_int(r, big)))
    x0, x1 = sorted((rand_int(r, big), rand_int(r, big)))
    return (y0, y1, x0, x1)


def P(p):
    return Position(*p)


def A(a):
    return Area((a[0], a[1]), (a[2], a[3]))


def T(p, o):
    return Transform(Position(*p), ORIS[o])


def at(a):
    return (a.ymin, a.ymax, a.xmin, a.xmax)


def guard(f):
    try:
        return ('ok', f())
    except Exception as e:  # noqa: BLE001
        return ('err', wire.EXN_NAMES.get(wire.exn_code(e), type(e).__name__))


def cases(ctx):
    """yield (name, request ints, impl thunk -> comparable, decoder of the model answer)"""
    r = ctx.rng
    n = 400 if ctx.tier == 'quick' else 4000
    for a, b in itt.product(range(4), repeat=2):
        yield ('omul', [1, 1, a, b], lambda a=a, b=b: [(ORIS[a] * ORIS[b]).value], lambda R: [R.z()], (a, b), a != 0 and b != 0)
    for a in range(4):
        yield ('oneg', [1, 2, a], lambda a=a: [(-ORIS[a]).value], lambda R: [R.z()], a, a > 1)
    # exhaustive small coordinates: every pose with coordinates in -2..2 x areas with bounds in -2..1 (neighbouring cases differ in ONE
    # coordinate -- including -1 vs -2, which python hashes alike -- so a memo keyed too weakly answers with its twin's result)
    small = range(-2, 3)
    areas = [(y0, y1, x0, x1) for y0 in (-2, -1, 0) for y1 in (y0, y0 + 1) for x0 in (-2, -1, 0) for x1 in (x0, x0 + 2)]
    for o in range(4):
        for py in small:
            for px in small:
                p = (py, px)
                for ar in (areas if ctx.tier == 'thorough' else areas[::3]):
                    yield ('tact_area', [1, 7, *p, o, *ar], lambda p=p, o=o, ar=ar: guard(lambda: at(T(p, o) * A(ar))),
                           lambda R: R.res(lambda: (R.z(), R.z(), R.z(), R.z())), ('small', p, o, ar), o != 0)
                for q in ((-1, 2), (-2, 2), (2, -1), (2, -2)):
                    yield ('tact', [1, 6, *p, o, *q], lambda p=p, o=o, q=q: list((T(p, o) * P(q)).yx), lambda R: list(R.pos()), ('small', p, o, q), o != 0)
                    yield ('tmul', [1, 5, *p, o, *q, (o + 1) % 4], lambda p=p, o=o, q=q: (lambda t: [t.position.y, t.position.x, t.orientation.value])(T(p, o) * T(q, (o + 1) % 4)),
                           lambda R: [R.z(), R.z(), R.z()], ('small', p, o, q), True)
        for ar in areas:
            yield ('orot_area', [1, 4, o, *ar], lambda o=o, ar=ar: guard(lambda: at(ORIS[o] * A(ar))),
                   lambda R: R.res(lambda: (R.z(), R.z(), R.z(), R.z())), ('small', o, ar), o != 0)
    for _ in range(n):
        o, o2 = r.randrange(4), r.randrange(4)
        p, q = rand_pos(r), rand_pos(r)
        ar = rand_area(r)
        yield ('orot', [1, 3, o, *p], lambda o=o, p=p: list((ORIS[o] * P(p)).yx), lambda R: list(R.pos()), (o, p), o != 0)
        yield ('orot_area', [1, 4, o, *ar], lambda o=o, ar=ar: guard(lambda: at(ORIS[o] * A(ar))),
               lambda R: R.res(lambda: (R.z(), R.z(), R.z(), R.z())), (o, ar), o != 0)
        yield ('tmul', [1, 5, *p, o, *q, o2], lambda p=p, o=o, q=q, o2=o2: (lambda t: [t.position.y, t.position.x, t.orientation.value])(T(p, o) * T(q, o2)),
               lambda R: [R.z(), R.z(), R.z()], (p, o, q, o2), o != 0 and o2 != 0)
        yield ('tact', [1, 6, *p, o, *q], lambda p=p, o=o, q=q: list((T(p, o) * P(q)).yx), lambda R: list(R.pos()), (p, o, q), o != 0)
        yield ('tact_area', [1, 7, *p, o, *ar], lambda p=p, o=o, ar=ar: guard(lambda: at(T(p, o) * A(ar))),
               lambda R: R.res(lambda: (R.z(), R.z(), R.z(), R.z())), (p, o, ar), o != 0)
        yield ('tneg', [1, 8, *p, o], lambda p=p, o=o: (lambda t: [t.position.y, t.position.x, t.orientation.value])(-T(p, o)),
               lambda R: [R.z(), R.z(), R.z()], (p, o), o != 0)
        act = r.randrange(8)
        yield ('next_position', [1, 9, *p, o, act], lambda p=p, o=o, act=act: list(get_next_position(P(p), ORIS[o], ACTS[act]).yx),
               lambda R: list(R.pos()), (p, o, act), act < 4)
        ps, qs = rand_pos(r, False), rand_pos(r, False)
        yield ('distances', [1, 10, *ps, *qs],
               lambda ps=ps, qs=qs: [int(Position.manhattan_distance(P(ps), P(qs))), int(round(Position.euclidean_distance(P(ps), P(qs)) ** 2))],
               lambda R: [R.z(), R.z()], (ps, qs), ps != qs)
        d = r.randint(-1, 5)
        yield ('manhattan_boundary', [1, 11, *ps, d],
               lambda ps=ps, d=d: guard(lambda: [tuple(x.yx) for x in get_manhattan_boundary(P(ps), d)]),
               lambda R: R.res(lambda: R.lst(R.pos)), (ps, d), d > 0)
        sa = rand_area(r, small=True)
        sel = r.randrange(3)
        yield ('area_positions', [1, 14, *sa, sel],
               lambda sa=sa, sel=sel: [tuple(x.yx) for x in A(sa).positions(['all', 'border', 'inside'][sel])],
               lambda R: R.lst(R.pos), (sa, sel), True)
        yield ('area_contains', [1, 15, *ar, *p], lambda ar=ar, p=p: [1 if A(ar).contains(P(p)) else 0], lambda R: [R.z()], (ar, p), A(ar).contains(P(p)))
        pc = (r.choice([ar[0], ar[1], ar[0] - 1, ar[1] + 1]), r.choice([ar[2], ar[3], ar[2] - 1, ar[3] + 1]))
        yield ('area_contains', [1, 15, *ar, *pc], lambda ar=ar, pc=pc: [1 if A(ar).contains(P(pc)) else 0], lambda R: [R.z()], (ar, pc), True)
    # grid rotation: EVERY shape up to the bound, on tagged grids (all cells distinct)
    hi = 6 if ctx.tier == 'quick' else 9
    for h in range(1, hi + 1):
        for w in range(1, hi + 1):
            t = tags(h * w)
            cg = tuple(tuple(t[i * w + j] for j in range(w)) for i in range(h))
            for o in range(4):
                yield ('grid_rot', [1, 12, o, *wire.egrid(cg)], lambda cg=cg, o=o: wire.cgrid(wire.mkgrid(cg) * ORIS[o]),
                       lambda R: R.grid(), ('rot', h, w, o), o != 0)
            for _ in range(2 if ctx.tier == 'quick' else 6):
                ar = (r.randint(-3, h), 0, r.randint(-3, w), 0)
                ar = (ar[0], ar[0] + r.randint(0, h + 2), ar[2], ar[2] + r.randint(0, w + 2))
                yield ('subgrid', [1, 13, *wire.egrid(cg), *ar], lambda cg=cg, ar=ar: wire.cgrid(wire.mkgrid(cg).subgrid(A(ar))),
                       lambda R: R.grid(), ('sub', h, w, ar), True)
    # python indexing of grids, wrap-around included
    for _ in range(n // 2):
        h, w = gen.rand_shape(r, 1, 5)
        cg = gen.rand_grid(r, h, w)
        p = (r.randint(-h - 1, h), r.randint(-w - 1, w))
        q = (r.randint(-h - 1, h), r.randint(-w - 1, w))
        yield ('grid_get', [1, 16, *wire.egrid(cg), *p], lambda cg=cg, p=p: guard(lambda: wire.cobj(wire.mkgrid(cg)[P(p)])),
               lambda R: R.res(R.obj), ('get', cg, p), p[0] < 0 or p[1] < 0)
        o = gen.rand_obj(r)

        def do_set(cg=cg, p=p, o=o):
            g = wire.mkgrid(cg)
            g[P(p)] = wire.mkobj(o)
            return wire.cgrid(g)

        yield ('grid_set', [1, 17, *wire.egrid(cg), *p, *wire.eobj(o)], lambda f=do_set: guard(f), lambda R: R.res(R.grid), ('set', cg, p, o), True)

        def do_swap(cg=cg, p=p, q=q):
            g = wire.mkgrid(cg)
            g.swap(P(p), P(q))
            return wire.cgrid(g)

        yield ('grid_swap', [1, 18, *wire.egrid(cg), *p, *q], lambda f=do_swap: guard(f), lambda R: R.res(R.grid), ('swap', cg, p, q), p != q)


def norm(x):
    if isinstance(x, (list, tuple)):
        return [norm(v) for v in x]
    return x


# the reflected operand forms the public operators accept (tests/test_geometry.py asserts the first and third; Area has no __mul__ of its own
# and relies on the pose's reflected product): a form python now rejects is a pose that no longer acts on that operand through `*`
REFLECTED_OK = {'position * pose', 'area * pose', 'orientation * pose', 'orientation * grid'}


def oracles(ctx):
    """direct statements of the property on the code itself (no model involved)"""
    r = ctx.rng
    F = Orientation.F
    for a, b, c in itt.product(ORIS, repeat=3):
        ok = (a * (b * c) is (a * b) * c and F * a is a and a * F is a and a * (-a) is F and (-a) * a is F)
        ctx.case(('grp', a.value, b.value, c.value), True)
        if not ok:
            ctx.violation('orientation group law fails', {'a': a.name, 'b': b.name, 'c': c.name})
    n = 300 if ctx.tier == 'quick' else 3000
    for _ in range(n):
        o = ORIS[r.randrange(4)]
        p, q = P(rand_pos(r)), P(rand_pos(r))
        t1, t2, t3 = (T(rand_pos(r), r.randrange(4)) for _ in range(3))
        ident = Transform(Position(0, 0), F)
        checks = {
            'linear': o * (p + q) == o * p + o * q and o * (-p) == -(o * p),
            'isometric': Position.manhattan_distance(o * p, o * q) == Position.manhattan_distance(p, q),
            'assoc': t1 * (t2 * t3) == (t1 * t2) * t3,
            'identity': ident * t1 == t1 and t1 * ident == t1,
            'inverse': t1 * (-t1) == ident and (-t1) * t1 == ident,
            'action': (t1 * t2) * p == t1 * (t2 * p),
        }
        ctx.case(('alg', p.yx, q.yx, o.value, t1.position.yx), True)
        for k, v in checks.items():
            if not v:
                ctx.violation(f'geometry law `{k}` fails', {'o': o.name, 'p': p.yx, 'q': q.yx,
                              't1': [t1.position.yx, t1.orientation.name], 't2': [t2.position.yx, t2.orientation.name],
                              't3': [t3.position.yx, t3.orientation.name]})
        # the same algebra through the other spellings python offers: reflected operands (x * pose is pose * x: `__rmul__`) and augmented
        # assignment (t *= s, o *= o2, p += q) -- whatever the class defines for them must agree with the plain product / sum
        import copy as _copy
        arx = A(rand_area(r, small=True))

        def same_or_raises(f, expect):
            try:
                return f() == expect
            except TypeError:
                return None          # an operand form python rejects outright
        for label, got in (('position * pose', same_or_raises(lambda: p * t1, t1 * p)), ('area * pose', same_or_raises(lambda: arx * t1, t1 * arx)),
                           ('orientation * pose', same_or_raises(lambda: o * t1, t1 * o)),
                           ('orientation * grid', (lambda gg: same_or_raises(lambda: wire.cgrid(o * gg) == wire.cgrid(gg * o), True))(wire.mkgrid(gen.rand_grid(r, r.randint(1, 3), r.randint(1, 3)))))):
            base_ok = True
            if got is False or (got is None and label in REFLECTED_OK):
                ctx.violation(f'reflected product `{label}` ' + ('is rejected with a TypeError' if got is None else 'does not agree with the plain product'), {'t': [t1.position.yx, t1.orientation.name], 'p': p.yx, 'o': o.name})
            elif got is True:
                REFLECTED_OK.add(label)
        # a pose is a mutable object (the agent's pose is updated in place by every move and turn): its inverse, its action and its products are
        # those of its CURRENT value, whatever was computed from it before
        from gym_gridverse.agent import Agent
        live = Transform(Position(*t1.position.yx), t1.orientation)
        ag = Agent(Position(*t1.position.yx), t1.orientation)
        _ = (-live, live * p, live * t2, -ag.transform, ag.transform * p, ag.front())
        live.position, live.orientation = Position(*t2.position.yx), t2.orientation
        ag.position, ag.orientation = Position(*t2.position.yx), t2.orientation
        fresh = Transform(Position(*t2.position.yx), t2.orientation)
        for what, got_, exp_ in (('inverse', -live, -fresh), ('action on a position', live * p, fresh * p), ('product', live * t3, fresh * t3),
                                 ('inverse of the agent pose', -ag.transform, -fresh), ('agent front', ag.front(), fresh * Position.from_orientation(Orientation.F))):
            if got_ != exp_:
                ctx.violation(f'after a pose was updated in place, its {what} is not the one of its current value',
                              {'before': [t1.position.yx, t1.orientation.name], 'after': [t2.position.yx, t2.orientation.name], 'p': p.yx})
        tt = _copy.deepcopy(t1)
        tt *= t2
        oo = o
        oo *= t2.orientation
        pp = _copy.deepcopy(p)
        pp += q
        if tt != t1 * t2 or oo is not o * t2.orientation or pp != p + q:
            ctx.violation('augmented assignment (t *= s / o *= o2 / p += q) does not agree with the plain product / sum',
                          {'t1': [t1.position.yx, t1.orientation.name], 't2': [t2.position.yx, t2.orientation.name], 'p': p.yx, 'q': q.yx})
        ar = A(rand_area(r, small=True))
        img = t1 * ar
        if {(t1 * x).yx for x in ar.positions()} != {x.yx for x in img.positions()}:
            ctx.violation('area image is not the image of its positions', {'t': [t1.position.yx, t1.orientation.name], 'area': at(ar)})
        # the helper agrees with the pose algebra: MOVE_<dir> goes to pose * unit vector of <dir>, every other action stays (the statement,
        # written without any table of the implementation); all 8 actions per case
        for act in ACTS:
            np_ = get_next_position(p, o, act)
            rel = {'MOVE_FORWARD': Orientation.F, 'MOVE_BACKWARD': Orientation.B, 'MOVE_LEFT': Orientation.L, 'MOVE_RIGHT': Orientation.R}.get(act.name)
            exp = Transform(p, o) * Position.from_orientation(rel) if rel is not None else p
            if np_ != exp:
                ctx.violation('get_next_position disagrees with the pose algebra', {'p': p.yx, 'o': o.name, 'action': act.name, 'got': np_.yx, 'expected': exp.yx})
    # transforming an area transforms exactly its set of positions: the image is the bounding box of the images of its corners
    # (small coordinates exhaustively, neighbouring cases differing in one coordinate; Transform * Position is a separate code path)
    for o in ORIS:
        for py in range(-2, 3):
            for px in range(-2, 3):
                t = Transform(Position(py, px), o)
                for (y0, y1, x0, x1) in [(y0, y0 + dy, x0, x0 + dx) for y0 in (-2, -1, 0) for dy in (0, 1) for x0 in (-2, -1, 0) for dx in (0, 2)]:
                    a = Area((y0, y1), (x0, x1))
                    img = t * a
                    cs_ = [t * Position(y, x) for y in (y0, y1) for x in (x0, x1)]
                    exp = (min(c.y for c in cs_), max(c.y for c in cs_), min(c.x for c in cs_), max(c.x for c in cs_))
                    ctx.case(('area-image', py, px, o.value, y0, y1, x0, x1), True)
                    if at(img) != exp:
                        ctx.violation('transforming an area does not give the image of its positions', {'transform': [py, px, o.name], 'area': [y0, y1, x0, x1], 'got': at(img), 'expected': exp})
    hi = 5 if ctx.tier == 'quick' else 8
    for h in range(1, hi + 1):
        for w in range(1, hi + 1):
            t = tags(h * w)
            cg = tuple(tuple(t[i * w + j] for j in range(w)) for i in range(h))
            g = wire.mkgrid(cg)
            for o in ORIS:
                rg = g * o
                back = rg * (-o)
                same = sorted(map(repr, itt.chain(*wire.cgrid(rg)))) == sorted(map(repr, itt.chain(*cg)))
                shape_ok = (rg.shape.height, rg.shape.width) == ((h, w) if o in (Orientation.F, Orientation.B) else (w, h))
                ctx.case(('rotinv', h, w, o.value), o is not F)
                if wire.cgrid(back) != cg or not same or not shape_ok:
                    ctx.violation('grid rotation does not preserve objects / is not undone by the inverse', {'h': h, 'w': w, 'o': o.name})



def grid_histories(ctx):
    """ONE Grid object through a history of rotations, swaps, assignments and reads: after every operation the grid still equals an
    independently maintained shadow, rotating it rearranges exactly the CURRENT objects and is undone by the inverse rotation;
    each rotation is also compared with the model on the shadow's value"""
    r = ctx.rng
    batch = []
    for _ in range(60 if ctx.tier == 'quick' else 600):
        h, w = r.randint(1, 5), r.randint(1, 5)
        t = tags(h * w)
        shadow = [[t[i * w + j] for j in range(w)] for i in range(h)]
        g = wire.mkgrid(tuple(map(tuple, shadow)))
        hist = []
        for _k in range(r.randint(3, 10)):
            op = r.choice(['rot', 'rot', 'swap', 'swap', 'set', 'sub'])
            if op == 'rot':
                o = r.choice(ORIS)
                hist.append(f'rot {o.name}')
                cur = tuple(map(tuple, shadow))
                rg = g * o
                if wire.cgrid(g) != cur:
                    ctx.violation(f'rotating a grid by {o.name} modified the grid itself', {'history': list(hist), 'grid': cur})
                    break
                back = rg * (-o)
                same = sorted(map(repr, itt.chain(*wire.cgrid(rg)))) == sorted(map(repr, itt.chain(*cur)))
                ctx.case(('ghist', cur, o.value, len(hist)), True)
                if wire.cgrid(back) != cur or not same:
                    ctx.violation('after a history of operations on one grid, rotating it does not rearrange its current objects / is not undone by the inverse',
                                  {'history': list(hist), 'grid': cur})
                batch.append(('grid_rot_history', [1, 12, o.value, *wire.egrid(cur)], lambda v=wire.cgrid(rg): v, lambda R: R.grid(), ('hrot', cur, o.value, len(hist)), True))
                # a rotation is a NEW grid: whatever its receiver does with it (observation functions write Hidden into the rotated view they
                # asked for) leaves the original and every later rotation of it alone
                # (the FORWARD 'rotation' of the pinned code is the identity on the SAME rows, so this is asked for proper turns only)
                if o is not Orientation.F and r.random() < 0.6:
                    want = wire.cgrid(rg)
                    q = (r.randrange(rg.shape.height), r.randrange(rg.shape.width))
                    rg[P(q)] = wire.mkobj(gen.HIDDEN if hasattr(gen, 'HIDDEN') else (gen.TY['Hidden'], 0, 0, None))
                    hist.append(f'the receiver overwrites cell {q} of the rotated grid')
                    again = g * o
                    if wire.cgrid(g) != cur or wire.cgrid(again) != want:
                        ctx.violation(f'editing the grid returned by a rotation changed the original grid or its next rotation by {o.name}', {'history': list(hist), 'grid': cur})
                        break
            elif op == 'swap':
                p, q = (r.randrange(h), r.randrange(w)), (r.randrange(h), r.randrange(w))
                hist.append(f'swap {p} {q}')
                g.swap(P(p), P(q))
                shadow[p[0]][p[1]], shadow[q[0]][q[1]] = shadow[q[0]][q[1]], shadow[p[0]][p[1]]
            elif op == 'set':
                p = (r.randrange(h), r.randrange(w))
                ob = gen.rand_obj(r, depth=0)
                hist.append(f'set {p}')
                g[P(p)] = wire.mkobj(ob)
                shadow[p[0]][p[1]] = ob
            else:
                hist.append('subgrid')
                g.subgrid(Area((0, h - 1), (0, w - 1)))
            if wire.cgrid(g) != tuple(map(tuple, shadow)):
                ctx.violation('a grid no longer holds what was put into it', {'history': list(hist)})
                break
    return batch


def compare(ctx, batch):
    reqs = [b[1] for b in batch]
    answers = ctx.model(reqs)
    for (name, req, impl, dec, key, nontrivial), ans in zip(batch, answers or [None] * len(batch)):
        got = norm(impl())
        ctx.count('operation', name)
        ctx.case((name, key), nontrivial, {'op': name, 'request': req[:40], 'impl': got if len(repr(got)) < 300 else '...'})
        if ans is None:
            continue
        if ans == [-777, -777, -777]:
            ctx.disagreement(f'{name}: model could not decode the request', {'op': name, 'request': req})
            continue
        R = wire.Reader(ans)
        mod = norm(dec(R))
        if not R.done() or mod != got:
            ctx.disagreement(f'{name}: implementation and model differ', {'op': name, 'request': req, 'impl': got, 'model': mod})


def run(ctx):
    ctx.rule = ('random orientations/positions/areas/transforms (|coord| up to 2^60), every grid shape up to the tier bound on tagged grids, '
                'python-indexing probes; reflected operand forms and augmented assignment; histories on one Grid (rotate / swap / assign; the receiver of a rotation edits it); non-trivial = involves a non-identity orientation / a wrapped or out-of-range index / a non-empty set')
    oracles(ctx)
    compare(ctx, list(cases(ctx)) + grid_histories(ctx))
    ctx.notes['exhaustive_part'] = 'all orientation triples; all grid shapes up to 6x6 (quick) / 9x9 (thorough) x 4 orientations'


def replay(ctx, case):
    if 'request' in case:
        ans = ctx.model([case['request']])
        print('request', case['request'], '\nmodel answer now:', ans, '\nrecorded impl:', case.get('impl'), 'recorded model:', case.get('model'))
    run(ctx)


if __name__ == '__main__':
    sys.exit(core.main('C18', run, replay))
