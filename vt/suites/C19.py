"""C19 -- rays are connected paths that sweep the whole area.
Kernel: the verified checker fan_ok evaluated on Gen/Rays.v (views in use + every origin of every area up to 7x7) -- Props/C19.v.
Sweep (translation validation): the extracted checker AND an independent python statement of the contract on the fans of larger and
shifted areas, for compute_rays_fancy and compute_rays (360 degrees), cached and uncached; determinism and cache-independence:
cold / cached / after a shuffled sequence of other queries / after ray-traced visibility calls."""
import sys

import vt.boot  # noqa: F401
from gym_gridverse.geometry import Area, Position
from gym_gridverse.utils import raytracing as rt

from vt import comp, core, gen, wire


def canon(rays):
    return [[(int(p.y), int(p.x)) for p in ray] for ray in rays]


def check_fan(area, pos, rays, need_cover=True):
    """the property's statement, in python; returns None or the first failing clause"""
    if not rays:
        return 'no rays'
    cells = set()
    for ray in rays:
        if not ray or ray[0] != (pos.y, pos.x):
            return f'a ray does not start at its origin cell: {ray[:3]}'
        if len(set(ray)) != len(ray):
            return f'a ray visits a cell twice: {ray}'
        for c in ray:
            if not (area.ymin <= c[0] <= area.ymax and area.xmin <= c[1] <= area.xmax):
                return f'a ray leaves the area at {c}'
        for a, b in zip(ray, ray[1:]):
            if max(abs(a[0] - b[0]), abs(a[1] - b[1])) != 1:
                return f'a ray jumps from {a} to {b}'
        y, x = ray[-1]
        if not (y in (area.ymin, area.ymax) or x in (area.xmin, area.xmax)):
            return f'a ray ends at {ray[-1]}, which is not on the border'
        cells.update(ray)
    if need_cover:
        missing = [(y, x) for y in range(area.ymin, area.ymax + 1) for x in range(area.xmin, area.xmax + 1) if (y, x) not in cells]
        if missing:
            return f'the fan does not reach {missing[:5]}'
    return None


def fan_request(area, pos, rays):
    return [17, area.ymin, area.ymax, area.xmin, area.xmax, pos.y, pos.x, *comp.enc_rays(rays)]


def jobs(ctx):
    """(area, origin) pairs: beyond the kernel's 7x7 bound, shifted areas (ymin != xmin), thin areas"""
    r = ctx.rng
    out = []
    if ctx.tier == 'quick':
        for _ in range(70):
            h, w = r.randint(1, 12), r.randint(1, 12)
            y0, x0 = r.choice([(0, 0), (0, 0), (r.randint(-6, 6), r.randint(-6, 6))])
            out.append((Area((y0, y0 + h - 1), (x0, x0 + w - 1)), Position(y0 + r.randrange(h), x0 + r.randrange(w))))
        for (h, w) in ((8, 8), (9, 9), (11, 11), (13, 13), (15, 15), (7, 31), (1, 9), (9, 1)):
            out.append((Area((0, h - 1), (0, w - 1)), Position(h - 1, w // 2)))
            out.append((Area((0, h - 1), (0, w - 1)), Position(r.choice([0, h - 1]), r.choice([0, w - 1]))))
        for (y0, x0, h, w) in ((-6, -3, 7, 7), (-1, -2, 3, 5), (2, -5, 4, 6)):
            for _ in range(4):
                out.append((Area((y0, y0 + h - 1), (x0, x0 + w - 1)), Position(y0 + r.randrange(h), x0 + r.randrange(w))))
    else:
        for h in range(1, 12):
            for w in range(1, 12):
                if h <= 7 and w <= 7:
                    continue
                for y in range(h):
                    for x in range(w):
                        out.append((Area((0, h - 1), (0, w - 1)), Position(y, x)))
        for _ in range(600):
            h, w = r.randint(1, 9), r.randint(1, 9)
            y0, x0 = r.randint(-8, 8), r.randint(-8, 8)
            out.append((Area((y0, y0 + h - 1), (x0, x0 + w - 1)), Position(y0 + r.randrange(h), x0 + r.randrange(w))))
        for (h, w) in ((13, 13), (15, 15), (17, 17), (7, 31), (31, 7), (21, 21)):
            for _ in range(6):
                out.append((Area((0, h - 1), (0, w - 1)), Position(r.randrange(h), r.randrange(w))))
    return out


def run(ctx):
    r = ctx.rng
    ctx.rule = ('kernel: views in use + all origins of all areas <= 7x7 (Props/C19.v); sweep: origins of areas 8..12 (thorough: ALL origins of all '
                'areas up to 11x11, larger samples), shifted areas, thin areas; compute_rays_fancy and compute_rays, cached and uncached; unobstructed ray-traced views of fresh grids and of Grid objects looked at before their doors were opened in place; '
                'non-trivial = a fan with more than one cell')
    js = jobs(ctx)
    reqs, metas = [], []
    cold = {}
    for area, pos in js:
        key = (area.ymin, area.ymax, area.xmin, area.xmax, pos.y, pos.x)
        fancy = canon(rt.compute_rays_fancy(pos, area))
        cold[key] = fancy
        case = {'area': key[:4], 'origin': key[4:], 'function': 'compute_rays_fancy'}
        bad = check_fan(area, pos, fancy)
        ctx.count('fan', f'{area.height}x{area.width}' if area.height * area.width <= 49 else 'larger than 7x7')
        ctx.count('anchored', (area.ymin, area.xmin) == (0, 0))
        ctx.case(('fancy', key), area.height * area.width > 1, case if len(ctx.samples) < 3 else None)
        if bad:
            ctx.violation(f'compute_rays_fancy: {bad}', case)
        reqs.append(fan_request(area, pos, fancy))
        metas.append((case, bad))
        if fancy != canon(rt.compute_rays_fancy(pos, area)):
            ctx.violation('compute_rays_fancy is not deterministic', case)
        if r.random() < (0.15 if ctx.tier == 'quick' else 0.05) and area.height * area.width <= 144:
            full = canon(rt.compute_rays(pos, area))
            bad = check_fan(area, pos, full)
            c2 = dict(case, function='compute_rays')
            ctx.case(('full', key), True, None)
            ctx.count('fan', 'compute_rays (360 degrees)')
            if bad:
                ctx.violation(f'compute_rays: {bad}', c2)
            reqs.append(fan_request(area, pos, full))
            metas.append((c2, bad))
            if canon(rt.cached_compute_rays(pos, area)) != full or canon(rt.cached_compute_rays(pos, area)) != full:
                ctx.violation('cached_compute_rays differs from compute_rays', c2)
    # caching: first cached call, then again after a shuffled sequence of other queries and after ray-traced visibility calls
    from gym_gridverse.envs import visibility_functions as vf
    order = list(js)
    r.shuffle(order)
    for area, pos in order:
        key = (area.ymin, area.ymax, area.xmin, area.xmax, pos.y, pos.x)
        if canon(rt.cached_compute_rays_fancy(pos, area)) != cold[key]:
            ctx.violation('cached_compute_rays_fancy differs from the uncached computation', {'area': key[:4], 'origin': key[4:]})
    for area, pos in order:
        if (area.ymin, area.xmin) == (0, 0) and area.height * area.width <= 1000:
            empty = wire.mkgrid(tuple(tuple(gen.FLOOR for _ in range(area.width)) for _ in range(area.height)))
            shown = vf.raytracing(empty, pos)
            ctx.case(('unobstructed', area.height, area.width, pos.y, pos.x), True, None)
            ctx.count('unobstructed view', f'{area.height}x{area.width}' if area.height * area.width > 49 else '<= 7x7')
            if not bool(shown.all()):
                hidden = [(int(y), int(x)) for y, x in zip(*(~shown).nonzero())][:5]
                ctx.violation(f'an unobstructed ray-traced {area.height}x{area.width} view from {(pos.y, pos.x)} does not show everything: hidden {hidden}',
                              {'area': (area.ymin, area.ymax, area.xmin, area.xmax), 'origin': (pos.y, pos.x)})
            # the stochastic variant shows an unobstructed view for EVERY outcome of the generator, the largest draws (1 - 2^-53) included
            from vt.rngproxy import ScriptedRng, TWO53
            if area.height * area.width <= 169:
                shown = vf.stochastic_raytracing(empty, pos, rng=ScriptedRng([[TWO53 - 1] * (area.height * area.width)]))
                if not bool(shown.all()):
                    hidden = [(int(y), int(x)) for y, x in zip(*(~shown).nonzero())][:5]
                    ctx.violation(f'an unobstructed stochastic ray-traced {area.height}x{area.width} view from {(pos.y, pos.x)} hides {hidden} when every draw is the largest possible one',
                                  {'area': (area.ymin, area.ymax, area.xmin, area.xmax), 'origin': (pos.y, pos.x), 'draws': '1 - 2^-53 everywhere'})
    # ... whatever was asked of the same Grid object before: a view obstructed by shut doors is looked at, the doors are opened the way
    # actuate_door opens them (the door's own attribute; no cell is assigned), and the now unobstructed view must show everything
    np_ = __import__('numpy')
    DOOR = gen.TY['Door']
    done = 0
    for area, pos in order:
        if done >= (60 if ctx.tier == 'quick' else 600):
            break
        if (area.ymin, area.xmin) == (0, 0) and 2 <= area.height * area.width <= 169:
            done += 1
            cg = tuple(tuple(gen.FLOOR if (y, x) == (pos.y, pos.x) or r.random() < 0.7 else (DOOR, r.choice([1, 2]), r.randrange(1, 5), None)
                             for x in range(area.width)) for y in range(area.height))
            g = wire.mkgrid(cg)
            first = vf.raytracing(g, pos)
            vf.stochastic_raytracing(g, pos, rng=np_.random.default_rng(r.randrange(1 << 30)))
            for p_ in g.area.positions():
                if hasattr(g[p_], 'state') and hasattr(type(g[p_]), 'Status'):
                    g[p_].state = type(g[p_]).Status.OPEN
            ctx.case(('unobstructed-after-history', area.height, area.width, pos.y, pos.x), not bool(first.all()), None)
            ctx.count('unobstructed view', 'after a history on the same Grid object')
            for nm, shown in (('raytracing', vf.raytracing(g, pos)), ('stochastic_raytracing', vf.stochastic_raytracing(g, pos, rng=np_.random.default_rng(r.randrange(1 << 30))))):
                if not bool(shown.all()):
                    hidden = [(int(y), int(x)) for y, x in zip(*(~shown).nonzero())][:5]
                    ctx.violation(f'{nm}: an unobstructed {area.height}x{area.width} view from {(pos.y, pos.x)} hides {hidden} after the same Grid object was looked at with its doors shut',
                                  {'area': (area.ymin, area.ymax, area.xmin, area.xmax), 'origin': (pos.y, pos.x), 'history': 'look, open every door in place, look again'})
    for area, pos in order[:40]:
        if (area.ymin, area.xmin) == (0, 0) and area.height * area.width <= 169:
            g = wire.mkgrid(gen.rand_grid(r, area.height, area.width, floor_bias=0.7))
            vf.raytracing(g, pos)
            vf.stochastic_raytracing(g, pos, rng=__import__('numpy').random.default_rng(r.randrange(1 << 30)))
    r.shuffle(order)
    for area, pos in order:
        key = (area.ymin, area.ymax, area.xmin, area.xmax, pos.y, pos.x)
        again = canon(rt.cached_compute_rays_fancy(pos, area))
        ctx.case(('cache', key), True, None)
        if again != cold[key]:
            ctx.violation('a cached ray fan changed after other queries / visibility calls (caching affects the rays)', {'area': key[:4], 'origin': key[4:]})
    answers = ctx.model(reqs)
    if answers is not None:
        for (case, bad), ans in zip(metas, answers):
            ok = (ans[:1] == [1])
            if ok != (bad is None):
                ctx.disagreement('the verified checker and the python statement of the contract disagree on a fan', dict(case, checker=ans, python=bad))
    ctx.notes['kernel_evaluated'] = 'fans_in_use and fans_small of Gen/Rays.v: views in use by the shipped configurations; all origins of all areas up to 7x7 + 3 shifted areas'
    ctx.notes['programs'] = len(metas)


if __name__ == '__main__':
    sys.exit(core.main('C19', run, None))
