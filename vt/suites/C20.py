"""C20 -- the gym adapter is a faithful view of the wrapped environment.
T2: operation sequences addressing the gym layer, the state wrapper, the outer and the inner environment of ONE stack of real objects
(GymEnvironment / GymStateWrapper / OuterEnv / GridWorld) against the model machine `grun` (every output, exception class, draw log);
oracle per operation: the output is the representation (by a fresh converter) of the inner environment's current observation / state,
with the inner reward and flag, and lies inside the advertised gym space; the registered gym ids build the same environments."""
import copy
import os
import sys

import vt.boot  # noqa: F401
from gym_gridverse.envs.yaml.factory import factory_env_from_data

from vt import comp, core, envs, gsuite, impl


def check_jobs(ctx, jobs, layers_choices, length):
    r = ctx.rng
    reqs, metas = [], []
    for label, env, desc in jobs:
        layers = r.choice(layers_choices)
        can_state = env.state_space.can_be_represented
        sname = r.choice([0, 1, 2, None]) if can_state else None
        oname = r.choice([0, 1, 2, 0, 1, 2, None])
        ops = gsuite.rand_ops(r, desc, r.randint(1, length), layers)
        if not can_state:
            ops = [op for op in ops if op[0] != 'set_srep']
        debug = r.random() < 0.5
        outs, log, tape, stack, problems = gsuite.run_ops(env, sname, oname, ops, debug, r.randrange(1 << 30),
                                                                deterministic_obs=desc['obs']['name'] != 'stochastic_raytracing')
        case = {'env': label, 'layers': layers, 'state_repr': sname, 'obs_repr': oname, 'debug': debug,
                'ops': [f'{k}:{a}' if a is not None else k for k, a in ops]}
        for k, bad in problems:
            ctx.violation(f'operation {k} {ops[k]}: {bad}', dict(case, desc=desc, raw_ops=ops, seed_tape=tape))
        ctx.count('environment', label.split('-')[0] if label.startswith('random') else label)
        ctx.count('layers', layers)
        for (k, a), o in zip(ops, outs):
            ctx.count('operation', k)
            ctx.count('outcome', 'ok' if o[0] == 'ok' else 'raised ' + o[1])
        nread = sum(1 for k, _ in ops if k.endswith(('obs', 'state')))
        ctx.case((label, tuple(ops), sname, oname, tuple(map(tuple, tape))), nread > 0 and any(k.endswith('step') for k, _ in ops),
                 dict(case, ops=case['ops'][:30], draws=len(tape)))
        reqs.append(gsuite.request(desc, debug, sname, oname, ops, tape))
        metas.append((case, desc, ops, outs, log, tape))
    answers = ctx.model(reqs)
    if answers is None:
        return
    for (case, desc, ops, outs, log, tape), ans in zip(metas, answers):
        kind, val, mlog = gsuite.decode(desc, ans)
        if kind != 'ok' or not core.same(val, outs) or impl.norm_log(mlog) != impl.norm_log(log):
            first = next((i for i, (a, b) in enumerate(zip(val or [], outs)) if a != b), None) if kind == 'ok' else None
            ctx.disagreement('gym / outer / inner machine: implementation and model differ',
                             dict(case, desc=desc, raw_ops=ops, model_kind=kind, first_difference=first,
                                  op=ops[first] if first is not None else None,
                                  impl_out=str(outs[first])[:500] if first is not None else None,
                                  model_out=str(val[first])[:500] if first is not None else None,
                                  log_equal=impl.norm_log(mlog) == impl.norm_log(log)))


def registered_ids(ctx):
    """every registered gym id builds (through gym.make) the environment of its packaged yaml file, with the `default` observation
    representation and no state representation; its trajectory equals the one of an environment built from the same file by hand"""
    import gym
    import numpy as np
    from gym_gridverse import gym as gvgym
    from gym_gridverse.gym import GymEnvironment
    r = ctx.rng
    for gid, fname in sorted(gvgym.STRING_TO_YAML_FILE.items()):
        path = os.path.join(vt.boot.REPO, 'gym_gridverse', 'registered_envs', fname)
        if not os.path.exists(path):
            ctx.violation(f'registered id {gid} points to a missing file {fname}', {'id': gid})
            continue
        try:
            env = gym.make(gid, disable_env_checker=True).unwrapped
        except Exception as e:  # noqa: BLE001
            ctx.violation(f'gym.make({gid}) raised {type(e).__name__}: {e}', {'id': gid})
            continue
        if not isinstance(env, GymEnvironment):
            ctx.violation(f'gym.make({gid}) did not build a GymEnvironment', {'id': gid})
            continue
        twin = factory_env_from_data(copy.deepcopy(envs.load_yaml(path)))
        seed = r.randrange(1 << 30)
        env.outer_env.inner_env.set_seed(seed)
        twin.set_seed(seed)
        from gym_gridverse.representations.observation_representations import make_observation_representation
        rep = make_observation_representation('default', twin.observation_space)
        o = env.reset()
        twin.reset()
        steps = 15 if ctx.tier == 'quick' else 120
        for t in range(steps):
            exp = rep.convert(twin.observation)
            if set(o) != set(exp) or any(not np.array_equal(o[k], exp[k]) for k in exp) or not env.observation_space.contains(o):
                ctx.violation(f'{gid}: the gym observation at step {t} is not the default representation of the hand-built twin\'s observation (or outside the space)',
                              {'id': gid, 'seed': seed, 'step': t})
                break
            i = r.randrange(env.action_space.n)
            o, rwd, done, info = env.step(i)
            rwd2, done2 = twin.step(twin.action_space.int_to_action(i))
            if rwd != rwd2 or done != done2 or info != {}:
                ctx.violation(f'{gid}: step {t} returned ({rwd}, {done}, {info}); the hand-built twin gives ({rwd2}, {done2})', {'id': gid, 'seed': seed, 'step': t})
                break
            if done:
                o = env.reset()
                twin.reset()
        ctx.count('registered id', gid)
        ctx.case(('gymid', gid, seed), True, {'id': gid, 'file': fname, 'steps': steps})


def user_representations(ctx):
    """the adapter is a view of WHATEVER representation it is given: a user-written observation representation (its own keys, bounds declared
    with narrow dtypes, plain int64 / float64 arrays as values) -- reset / step return exactly its conversion of the inner observation, inside
    the advertised gym space; after switching to a built-in representation by name the advertised space is the conversion of the new one
    (its keys, nothing left over), and a space object handed out before the switch is not modified behind the caller's back"""
    import numpy as np
    from gym_gridverse.gym import GymEnvironment, GymStateWrapper
    from gym_gridverse.outer_env import OuterEnv
    from gym_gridverse.representations.representation import ObservationRepresentation
    from gym_gridverse.representations.spaces import Space, SpaceType
    from gym_gridverse.representations.observation_representations import make_observation_representation

    class UserObs(ObservationRepresentation):
        @property
        def space(self):
            shape = self.observation_space.grid_shape.as_tuple
            mt = self.observation_space.max_type_index
            return {'types': Space(SpaceType.CATEGORICAL, np.zeros(shape, dtype=np.uint8), np.full(shape, mt, dtype=np.uint8)),
                    'holding': Space(SpaceType.CONTINUOUS, np.zeros(1, dtype=np.float32), np.ones(1, dtype=np.float32))}

        def convert(self, observation):
            h, w = observation.grid.shape.height, observation.grid.shape.width
            types = np.array([[observation.grid[y, x].type_index() for x in range(w)] for y in range(h)])
            from gym_gridverse.grid_object import NoneGridObject
            return {'types': types, 'holding': np.array([0.0 if isinstance(observation.agent.grid_object, NoneGridObject) else 1.0])}

    r = ctx.rng
    picked = [x for x in envs.shipped_envs() if any(k in x[0] for k in ('keydoor.5x5', 'empty.4x4', 'dynamic_obstacles.5x5', 'four_rooms.7x7'))]
    for name, data, desc in picked:
        inner = factory_env_from_data(copy.deepcopy(data))
        rep = UserObs(inner.observation_space)
        genv = GymEnvironment(OuterEnv(inner, observation_representation=rep))
        wrapped = None
        inner.set_seed(r.randrange(1 << 30))
        case = {'env': name}
        ctx.case(('user-representation', name), True, None)
        ctx.count('user representation', name)
        try:
            obs = genv.reset()
            for t in range(12 if ctx.tier == 'quick' else 80):
                exp = rep.convert(inner.observation)
                if set(obs) != set(exp) or any(not np.array_equal(obs[k], exp[k]) for k in exp):
                    ctx.violation(f'{name}: with a user-written observation representation the gym layer did not return its conversion of the inner observation', dict(case, step=t))
                    break
                if not genv.observation_space.contains(obs):
                    bad = [k for k in obs if k not in genv.observation_space.spaces or not genv.observation_space[k].contains(obs[k])]
                    ctx.violation(f'{name}: with a user-written observation representation the observation is outside the advertised gym space (keys {bad}, dtypes {[str(obs[k].dtype) for k in bad]})', dict(case, step=t))
                    break
                obs, rwd, done, info = genv.step(r.randrange(genv.action_space.n))
                if done:
                    obs = genv.reset()
            old_space = genv.observation_space
            old_keys = sorted(old_space.spaces)
            kind = r.choice(['default', 'no-overlap', 'compact'])
            genv.set_observation_representation(kind)
            fresh = make_observation_representation(kind, inner.observation_space)
            obs = genv.reset()
            if sorted(genv.observation_space.spaces) != sorted(fresh.space) or not genv.observation_space.contains(obs):
                ctx.violation(f'{name}: after switching from a user-written representation to `{kind}` the advertised space has keys {sorted(genv.observation_space.spaces)} '
                              f'(the representation has {sorted(fresh.space)}) / does not contain the observation', case)
            if sorted(old_space.spaces) != old_keys:
                ctx.violation(f'{name}: switching the representation modified a space object handed out earlier', case)
        except Exception as e:  # noqa: BLE001
            ctx.violation(f'{name}: the gym layer over a user-written observation representation raised {type(e).__name__}: {e}', case)


def run(ctx):
    r = ctx.rng
    ctx.rule = ('operation sequences over the gym layer, the state wrapper and (interleaved) the outer / inner layers of one object stack: reset / '
                'step(index, incl. indices outside the space) / observation / state reads in patterns none, every, repeated, mixed; mid-episode and '
                'repeated resets; reads and steps before the first reset; representation switches (default / no-overlap / compact / unknown name) on '
                'both sides; with and without state / observation representation; all 21 shipped configurations and random compositions; '
                'registered gym ids vs hand-built twins; non-trivial = sequence with a read and a step')
    n_rand = 60 if ctx.tier == 'quick' else 400
    per = 4 if ctx.tier == 'quick' else 16
    length = 22 if ctx.tier == 'quick' else 60
    jobs = []
    for name, data, desc in envs.shipped_envs():
        env = factory_env_from_data(copy.deepcopy(data))
        jobs.extend((name, env, desc) for _ in range(per))
    for i in range(n_rand):
        desc = envs.rand_env(r)
        try:
            jobs.append((f'random-{i}', comp.build_env(desc), desc))
        except Exception as e:  # noqa: BLE001
            ctx.count('random env rejected at construction', type(e).__name__)
    check_jobs(ctx, jobs, ['g', 'w', 'gw', 'gw', 'gwo', 'gwoi', 'gi', 'wi'], length)
    registered_ids(ctx)
    user_representations(ctx)


if __name__ == '__main__':
    sys.exit(core.main('C20', run, None))
