"""T1 translator: finite-domain tables of the running code -> coq/Gen/Tables.v

Every function tabulated here has a finite domain, and the WHOLE domain is enumerated by
executing /repo's code, so the emitted Gallina definition *is* that function.  The translator is
deliberately dumb (print what the code returned) and fails closed: anything it does not understand
raises TranslatorError, which the check reports as a broken obligation.
"""
import inspect
import itertools as itt

import vt.boot  # noqa: F401
from gym_gridverse.action import Action
from gym_gridverse.envs import transition_functions as tf
from gym_gridverse.envs.utils import get_next_position
from gym_gridverse.agent import Agent
from gym_gridverse.geometry import Area, Orientation, Position
from gym_gridverse.grid import Grid
from gym_gridverse.grid_object import (
    Color,
    Floor,
    GridObject,
    grid_object_registry,
)
from gym_gridverse.state import State


class TranslatorError(Exception):
    pass


HEADER = """(* GENERATED on every run by vt/tabulate.py from the code in /repo -- never edit, never commit.
   Each definition is the exhaustive tabulation of a finite-domain function of the running code. *)
From Coq Require Import ZArith List Bool String.
Import ListNotations.
Open Scope Z_scope.
"""


def canonical(enum_cls):
    """members in definition order, aliases dropped"""
    return list(enum_cls)


def zlit(n):
    n = int(n)
    return f'({n})' if n < 0 else f'{n}'


def blit(b):
    if b is True:
        return 'true'
    if b is False:
        return 'false'
    raise TranslatorError(f'not a bool: {b!r}')


def emit_enum(name, cls, out):
    members = canonical(cls)
    names = [m.name for m in members]
    out.append(f'Inductive {name} : Set := ' + ' | '.join(names) + '.')
    out.append(f'Definition {name}_all : list {name} := [' + '; '.join(names) + '].')
    out.append(
        f'Definition {name}_value (v : {name}) : Z := match v with '
        + ' | '.join(f'{m.name} => {zlit(m.value)}' for m in members)
        + ' end.'
    )
    out.append(
        f'Definition {name}_of_value (z : Z) : option {name} := match z with '
        + ' | '.join(f'{zlit(m.value)} => Some {m.name}' for m in members)
        + ' | _ => None end.'
    )
    values = [m.value for m in members]
    if len(set(values)) != len(values) or not all(isinstance(v, int) for v in values):
        raise TranslatorError(f'{name}: values are not distinct ints')
    out.append('')


def make_object(cls, state_value=None, color=None):
    """generic constructor: parameters are recognised by name (state, color, content)"""
    sig = inspect.signature(cls.__init__)
    kwargs = {}
    shape = []
    for pname, p in list(sig.parameters.items())[1:]:
        if p.kind in (p.VAR_POSITIONAL, p.VAR_KEYWORD):
            continue
        if pname == 'color':
            kwargs[pname] = color if color is not None else Color.NONE
            shape.append('color')
        elif pname == 'state':
            status_cls = getattr(cls, 'Status', None)
            if status_cls is None:
                raise TranslatorError(f'{cls.__name__}: state parameter without Status enum')
            kwargs[pname] = status_cls(state_value if state_value is not None else 0)
            shape.append('state')
        elif pname == 'content':
            kwargs[pname] = Floor()
            shape.append('content')
        else:
            raise TranslatorError(f'{cls.__name__}: unknown constructor parameter {pname}')
    return cls(**kwargs), tuple(shape)


def object_tables(out):
    types = list(grid_object_registry)
    names = [t.__name__ for t in types]
    if len(set(names)) != len(names):
        raise TranslatorError('duplicate object type names')
    out.append('(* ---- grid-object registry ---- *)')
    out.append(f'Definition num_types : Z := {len(types)}.')
    for t in types:
        if t.type_index() != types.index(t):
            raise TranslatorError('type_index is not the registry position')
        out.append(f'Definition ty_{t.__name__} : Z := {t.type_index()}.')
    out.append(
        'Definition type_names : list (Z * string) := ['
        + '; '.join(f'({t.type_index()}, "{t.__name__}"%string)' for t in types)
        + '].'
    )
    rows = {}  # (ty, st) -> flags
    shapes = {}
    nstates = {}
    repres = {}
    for t in types:
        n = t.num_states()
        if not isinstance(n, int) or n < 1:
            raise TranslatorError(f'{t.__name__}: num_states {n!r}')
        nstates[t.type_index()] = n
        repres[t.type_index()] = t.can_be_represented_in_state()
        _, shape = make_object(t)
        shapes[t.type_index()] = shape
        if n > 1 and 'state' not in shape:
            raise TranslatorError(f'{t.__name__}: several states but no state parameter')
        for st in range(n):
            flags = None
            colors = list(Color) if 'color' in shape else [None]
            for c in colors:
                o, _ = make_object(t, st, c)
                if o.state_index != st:
                    raise TranslatorError(f'{t.__name__}: state_index {o.state_index} != {st}')
                if c is not None and o.color is not c:
                    raise TranslatorError(f'{t.__name__}: color not stored')
                if c is None and o.color is not Color.NONE:
                    raise TranslatorError(f'{t.__name__}: colourless object with colour {o.color}')
                f = (bool(o.blocks_movement), bool(o.blocks_vision), bool(o.holdable))
                if flags is not None and f != flags:
                    raise TranslatorError(f'{t.__name__}: flags depend on colour')
                flags = f
            rows[(t.type_index(), st)] = flags

    def table(fname, idx):
        cases = ' | '.join(
            f'{ty}, {st} => {blit(fl[idx])}' for (ty, st), fl in sorted(rows.items()) if fl[idx]
        )
        cases = (cases + ' | ') if cases else ''
        out.append(
            f'Definition {fname} (ty st : Z) : bool := match ty, st with {cases}_, _ => false end.'
        )

    table('blocks_movement', 0)
    table('blocks_vision', 1)
    table('holdable', 2)
    out.append(
        'Definition num_states (ty : Z) : Z := match ty with '
        + ' | '.join(f'{ty} => {n}' for ty, n in sorted(nstates.items()))
        + ' | _ => 0 end.'
    )
    out.append(
        'Definition representable (ty : Z) : bool := match ty with '
        + ' | '.join(f'{ty} => {blit(r)}' for ty, r in sorted(repres.items()))
        + ' | _ => false end.'
    )
    for key in ('color', 'state', 'content'):
        out.append(
            f'Definition ctor_has_{key} (ty : Z) : bool := match ty with '
            + ''.join(f'{ty} => true | ' for ty, sh in sorted(shapes.items()) if key in sh)
            + '_ => false end.'
        )
    out.append('')
    return types


def geometry_tables(out):
    oris = canonical(Orientation)
    out.append('(* ---- geometry ---- *)')
    out.append(
        'Definition omul (a b : Orientation) : Orientation := match a, b with '
        + ' | '.join(f'{a.name}, {b.name} => {(a * b).name}' for a in oris for b in oris)
        + ' end.'
    )
    out.append(
        'Definition oneg (a : Orientation) : Orientation := match a with '
        + ' | '.join(f'{a.name} => {(-a).name}' for a in oris)
        + ' end.'
    )
    out.append(
        'Definition ovec (a : Orientation) : Z * Z := match a with '
        + ' | '.join(
            f'{a.name} => ({zlit(Position.from_orientation(a).y)}, {zlit(Position.from_orientation(a).x)})'
            for a in oris
        )
        + ' end.'
    )
    # integer matrix of each orientation acting on positions: images of the basis vectors
    rows = []
    for a in oris:
        ey = a * Position(1, 0)
        ex = a * Position(0, 1)
        # sanity: the code's action is linear on a probe (checked at large by T2)
        p = a * Position(5, -7)
        if (p.y, p.x) != (5 * ey.y - 7 * ex.y, 5 * ey.x - 7 * ex.x):
            raise TranslatorError('orientation action is not linear on the probe')
        rows.append(f'{a.name} => (({zlit(ey.y)}, {zlit(ex.y)}), ({zlit(ey.x)}, {zlit(ex.x)}))')
    out.append(
        '(* omat o = ((a, b), (c, d)) :  o * (y, x) = (a*y + b*x, c*y + d*x) *)\n'
        'Definition omat (o : Orientation) : (Z * Z) * (Z * Z) := match o with '
        + ' | '.join(rows)
        + ' end.'
    )
    # orientation acting on areas: each output bound is +/- one input bound
    probe = Area((2, 3), (5, 11))
    src = {2: 'YMIN', 3: 'YMAX', 5: 'XMIN', 11: 'XMAX'}
    out.append('Inductive abound : Set := YMIN | YMAX | XMIN | XMAX.')
    rows = []
    for a in oris:
        r = a * probe
        ent = []
        for v in (r.ymin, r.ymax, r.xmin, r.xmax):
            if abs(v) not in src:
                raise TranslatorError('orientation * area: unexpected bound')
            ent.append(f'({blit(v < 0)}, {src[abs(v)]})')
        rows.append(f'{a.name} => [' + '; '.join(ent) + ']')
    out.append(
        '(* oarea o = for each of ymin, ymax, xmin, xmax of the result: (negated?, source bound) *)\n'
        'Definition oarea (o : Orientation) : list (bool * abound) := match o with '
        + ' | '.join(rows)
        + ' end.'
    )
    # move actions -> direction, through get_next_position at the origin, heading FORWARD
    rows = []
    for act in canonical(Action):
        img = {}
        for o in oris:
            p = get_next_position(Position(0, 0), o, act)
            img[o] = (p.y, p.x)
        if all(v == (0, 0) for v in img.values()):
            rows.append(f'{act.name} => None')
            if act.is_move():
                raise TranslatorError(f'{act.name}: is_move but no displacement')
        else:
            d = [x for x in oris if Position.from_orientation(x).yx == img[Orientation.F]]
            if len(d) != 1:
                raise TranslatorError(f'{act.name}: displacement is not a unit vector')
            d = d[0]
            for o in oris:
                if Position.from_orientation(o * d).yx != img[o]:
                    raise TranslatorError(f'{act.name}: displacement not heading-relative')
            rows.append(f'{act.name} => Some {d.name}')
    out.append(
        'Definition move_dir (a : Action) : option Orientation := match a with '
        + ' | '.join(rows)
        + ' end.'
    )
    out.append(
        'Definition is_move (a : Action) : bool := match a with '
        + ' | '.join(f'{a.name} => {blit(a.is_move())}' for a in canonical(Action))
        + ' end.'
    )
    out.append(
        'Definition is_turn (a : Action) : bool := match a with '
        + ' | '.join(f'{a.name} => {blit(a.is_turn())}' for a in canonical(Action))
        + ' end.'
    )
    # turn actions -> orientation factor, through turn_agent on every heading
    rows = []
    for act in canonical(Action):
        fac = None
        for o in oris:
            s = State(Grid.from_shape((1, 1)), Agent(Position(0, 0), o))
            tf.turn_agent(s, act)
            cands = [d for d in oris if o * d is s.agent.orientation]
            if len(cands) != 1:
                raise TranslatorError('turn_agent: no unique factor')
            if fac is not None and cands[0] is not fac:
                raise TranslatorError(f'{act.name}: turn is not a right multiplication')
            fac = cands[0]
            if s.agent.position != Position(0, 0):
                raise TranslatorError('turn_agent displaced the agent')
        rows.append(f'{act.name} => {"None" if fac is Orientation.F else "Some " + fac.name}')
    out.append(
        '(* turn_agent multiplies the heading on the right by this factor *)\n'
        'Definition turn_dir (a : Action) : option Orientation := match a with '
        + ' | '.join(rows)
        + ' end.'
    )
    # which list rotation Grid.__mul__ performs per orientation: identified on a tagged 2x3 matrix
    from gym_gridverse.grid_object import Key, Door, Exit, Telepod, Beacon, Wall

    tagged = [
        [Key(Color.RED), Key(Color.GREEN), Key(Color.BLUE)],
        [Exit(Color.RED), Exit(Color.GREEN), Wall()],
    ]
    g = Grid(tagged)
    ids = [[id(c) for c in row] for row in tagged]

    def rot_id(m):
        return m

    def rot_cw(m):  # zip(*m[::-1]) : first row of result = first column read bottom-up
        return [list(r) for r in zip(*m[::-1])]

    def rot_ccw(m):
        return [list(r) for r in zip(*m)][::-1]

    def rot_half(m):
        return [r[::-1] for r in m[::-1]]

    kinds = {'RotId': rot_id, 'RotCW': rot_cw, 'RotCCW': rot_ccw, 'RotHalf': rot_half}
    out.append('Inductive rotkind : Set := RotId | RotCW | RotCCW | RotHalf.')
    rows = []
    for o in oris:
        r = g * o
        got = [[id(c) for c in row] for row in r.objects]
        ks = [k for k, f in kinds.items() if f(ids) == got]
        if len(ks) != 1:
            raise TranslatorError(f'Grid * {o.name}: not one of the four rotations')
        rows.append(f'{o.name} => {ks[0]}')
    out.append(
        '(* RotCW: result[i][j] = m[h-1-j][i];  RotCCW: result[i][j] = m[j][w-1-i];  RotHalf: m[h-1-i][w-1-j] *)\n'
        'Definition grid_rot (o : Orientation) : rotkind := match o with '
        + ' | '.join(rows)
        + ' end.'
    )
    out.append('')


def generate():
    out = [HEADER]
    emit_enum('Orientation', Orientation, out)
    emit_enum('Action', Action, out)
    emit_enum('Color', Color, out)
    from gym_gridverse.grid_object import Door

    emit_enum('DoorStatus', Door.Status, out)
    object_tables(out)
    geometry_tables(out)
    return '\n'.join(out) + '\n'


if __name__ == '__main__':
    print(generate())
