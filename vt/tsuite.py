"""Shared machinery for the transition-function properties (C01 C08 C09 C10 C11):
case generation, running the real registry functions with recording generators, comparison with the
extracted model (result, exception class, draw log), exhaustive outcome trees via ScriptedRng."""
import itertools as itt

import vt.boot  # noqa: F401

from vt import gen, impl, wire
from vt.rngproxy import enumerate_outcomes


def tup(x):
    return tuple(tup(v) for v in x) if isinstance(x, (list, tuple)) else x


def case_dict(names, cs, act):
    return {'functions': [impl.TNAMES[n] for n in names], 'state': gen.show_state(cs), 'action': impl.ACTS[act].name,
            'wire_state': cs, 'names': list(names), 'act': act}


def from_case(case):
    cs = tup(case['wire_state'])
    return list(case['names']), cs, case['act']


def corpus():
    """minimised past failures (DESIGN.md section 9), run first by every transition suite"""
    F = gen.FLOOR
    g3 = tuple(tuple(F for _ in range(3)) for _ in range(3))
    KEY = (gen.TY['Key'], 0, 4, None)
    TEL = (gen.TY['Telepod'], 0, 1, None)
    # D1 move_agent through the top / left / bottom / right edge
    for p, o in (((0, 1), 0), ((1, 0), 2), ((2, 1), 1), ((1, 2), 3)):
        yield ([0], (g3, p, o, gen.NONE), 0, 'corpus')
    # D2 pickndrop facing each edge, holding a key / empty-handed with a key on the opposite side
    for p, o in (((0, 1), 0), ((1, 0), 2), ((2, 1), 1), ((1, 2), 3)):
        yield ([2], (g3, p, o, KEY), 7, 'corpus')
        yield ([2], (gen.set_cell(gen.set_cell(g3, (2, 1), KEY), (1, 2), KEY), p, o, gen.NONE), 7, 'corpus')
    # D3 teleport on an unpaired telepod / on a telepod whose only other telepod has another colour
    yield ([6], (gen.set_cell(g3, (1, 1), TEL), (1, 1), 0, gen.NONE), 0, 'corpus')
    yield ([6], (gen.set_cell(gen.set_cell(g3, (1, 1), TEL), (0, 0), (gen.TY['Telepod'], 0, 2, None)), (1, 1), 0, gen.NONE), 6, 'corpus')
    # actuate facing each edge
    for p, o in (((0, 1), 0), ((1, 0), 2), ((2, 1), 1), ((1, 2), 3)):
        yield ([4, 5], (g3, p, o, KEY), 6, 'corpus')



_DIRS = {0: (-1, 0), 1: (1, 0), 2: (0, -1), 3: (0, 1)}
# heading (F B L R) x relative direction (F B L R) -> absolute direction index, read off the geometry of the code itself
def _abs_dir(o, d):
    from gym_gridverse.geometry import Orientation, Position
    v = Position.from_orientation(Orientation(o) * Orientation(d))
    return (v.y, v.x)


def wrap_cases(ctx, n, focus=None):
    """edge poses whose attempted target / faced cell lies beyond the TOP or LEFT edge (python index -1 wraps to the opposite edge), with
    an interactive object planted exactly on the wrapped cell (door of every status, box, key, obstacle, telepod, exit, wall, floor) and
    a matching or mismatching held item; also bottom / right (IndexError side).  Catches out-of-grid guards replaced by try/except."""
    r = ctx.rng
    T = gen.TY
    for _ in range(n):
        h, w = r.randint(2, 5), r.randint(2, 5)
        types = [T[t] for t in ('Floor', 'Floor', 'Wall', 'Door', 'Key', 'Box', 'Exit', 'MovingObstacle', 'Telepod')]
        g = gen.rand_grid(r, h, w, types=types, floor_bias=0.6)
        o = r.randrange(4)
        act = r.choice([0, 1, 2, 3, 6, 6, 7, 7])
        rel = act if act < 4 else 0                       # MOVE_FORWARD/BACKWARD/LEFT/RIGHT = relative F/B/L/R; ACTUATE / PICK_N_DROP look at the front
        dy, dx = _abs_dir(o, rel)
        # a pose from which the target leaves the grid through the side the direction points to
        y = 0 if dy < 0 else (h - 1 if dy > 0 else r.randrange(h))
        x = 0 if dx < 0 else (w - 1 if dx > 0 else r.randrange(w))
        ty, tx = (y + dy) % h, (x + dx) % w               # the cell python's wrapped index would reach
        col = r.choice(gen.COLORS)
        planted = r.choice([(T['Door'], r.randrange(3), col, None), (T['Door'], r.randrange(3), col, None), (T['Box'], 0, 0, gen.rand_obj(r, depth=0)),
                            (T['Key'], 0, col, None), (T['MovingObstacle'], 0, 0, None), (T['Telepod'], 0, col, None), (T['Exit'], 0, 0, None),
                            gen.FLOOR, gen.FLOOR, gen.WALL])
        g = gen.set_cell(g, (ty, tx), planted)
        if (ty, tx) != (y, x) and r.random() < 0.7:
            g = gen.set_cell(g, (y, x), gen.FLOOR)
        held = r.choice([gen.NONE, (T['Key'], 0, col, None), (T['Key'], 0, col, None), (T['Key'], 0, r.choice(gen.COLORS), None), (T['Telepod'], 0, col, None)])
        if focus is not None and r.random() < 0.7:
            names = [r.choice(focus)]
        else:
            names = [{0: 0, 1: 0, 2: 0, 3: 0, 6: r.choice([4, 5]), 7: 2}[act]] if r.random() < 0.7 else rand_names(r, focus)
        yield (names, (g, (y, x), o, held), act, 'edge-wrap')


def rand_names(r, focus=None):
    k = r.random()
    if focus is not None and k < 0.55:
        return [r.choice(focus)]
    if k < 0.75:
        return [r.randrange(7)]
    return [r.randrange(7) for _ in range(r.randint(2, 5))]


def random_cases(ctx, n, focus=None, types=None, colors=None, hi=6, floor_bias=0.5, state_fix=None):
    r = ctx.rng
    for _ in range(n):
        cs = gen.rand_state(r, types=types, colors=colors, hi=hi, floor_bias=floor_bias)
        if state_fix:
            cs = state_fix(r, cs)
        yield (rand_names(r, focus), cs, r.randrange(8), 'random')


class _Probe:
    """a throw-away context for re-evaluating an oracle while shrinking: records violations, ignores the bookkeeping"""

    def __init__(self, ctx):
        self.violations = []
        self.rng, self.tier = ctx.rng, ctx.tier

    def violation(self, what, case):
        self.violations.append((what, case))

    def case(self, *a, **k):
        pass

    def count(self, *a, **k):
        pass


def shrink(ctx, names, cs, act, seed, oracle, what, budget=250):
    """greedy minimisation of a failing single-step case: fewer functions, smaller grid, emptier cells, empty hands -- every candidate is
    re-run on the real code under the same seed and kept only if the oracle still reports the same kind of violation"""
    key = what[:28]

    def fails(n, c, a):
        pr = _Probe(ctx)
        try:
            kind, val, log, tape = impl.run_transition(n, c, a, True, seed=seed)
            oracle(pr, n, c, a, kind, val, log, tape)
        except Exception:  # noqa: BLE001
            return False
        return any(w[:28] == key for w, _ in pr.violations)
    best = (list(names), cs, act)
    runs = 0
    changed = True
    while changed and runs < budget:
        changed = False
        n, (g, p, o, held), a = best
        h, w = gen.shape_of(g)
        cands = []
        for i in range(len(n)):
            if len(n) > 1:
                cands.append((n[:i] + n[i + 1:], (g, p, o, held), a))
        if h > 1 and p[0] != h - 1:
            cands.append((n, (g[:-1], p, o, held), a))
        if h > 1 and p[0] != 0:
            cands.append((n, (g[1:], (p[0] - 1, p[1]), o, held), a))
        if w > 1 and p[1] != w - 1:
            cands.append((n, (tuple(row[:-1] for row in g), p, o, held), a))
        if w > 1 and p[1] != 0:
            cands.append((n, (tuple(row[1:] for row in g), (p[0], p[1] - 1), o, held), a))
        if held != gen.NONE:
            cands.append((n, (g, p, o, gen.NONE), a))
        for y in range(h):
            for x in range(w):
                c = g[y][x]
                if c != gen.FLOOR:
                    cands.append((n, (gen.set_cell(g, (y, x), gen.FLOOR), p, o, held), a))
                    if c[3] is not None:
                        cands.append((n, (gen.set_cell(g, (y, x), c[3]), p, o, held), a))
        for cand in cands:
            runs += 1
            if runs > budget:
                break
            if fails(*cand):
                best = cand
                changed = True
                break
    return best


def run_cases(ctx, cases, oracle, nontrivial=None):
    """runs impl (with recording rngs) on every case, applies the oracle, then compares with the model in one batch"""
    reqs, metas = [], []
    shrunk = 0
    for names, cs, act, origin in cases:
        own = True
        seed = ctx.rng.randrange(1 << 30)
        kind, val, log, tape = impl.run_transition(names, cs, act, own, seed=seed)
        before = len(ctx.violations)
        oracle(ctx, names, cs, act, kind, val, log, tape)
        if len(ctx.violations) > before and shrunk < 3:
            # the first failing cases of a run are minimised: the replay names the smallest state found that still fails the same way
            shrunk += 1
            what, case = ctx.violations[before]
            try:
                n2, cs2, a2 = shrink(ctx, names, cs, act, seed, oracle, what)
                if (n2, cs2, a2) != (list(names), cs, act):
                    pr = _Probe(ctx)
                    k2, v2, l2, t2 = impl.run_transition(n2, cs2, a2, True, seed=seed)
                    oracle(pr, n2, cs2, a2, k2, v2, l2, t2)
                    hit = next(((w, c) for w, c in pr.violations if w[:28] == what[:28]), None)
                    if hit is not None and isinstance(hit[1], dict):
                        ctx.violations[before] = (hit[0], dict(hit[1], minimised_from=case.get('state') if isinstance(case, dict) else None, run_seed=seed))
            except Exception:  # noqa: BLE001  (shrinking is a convenience: never let it disturb the verdict)
                pass
        nt = nontrivial(names, cs, act, kind, val) if nontrivial else (kind != 'ok' or val != cs)
        ctx.count('origin', origin)
        ctx.count('action', impl.ACTS[act].name)
        ctx.count('result', 'raised ' + val if kind != 'ok' else ('changed' if val != cs else 'unchanged'))
        for n in names:
            ctx.count('function', impl.TNAMES[n])
        ctx.case((tuple(names), cs, act), nt, {'functions': [impl.TNAMES[n] for n in names], 'state': gen.show_state(cs),
                                              'action': impl.ACTS[act].name, 'result': kind, 'draws': len(log)})
        reqs.append(impl.transition_request(names, own, act, cs, tape))
        metas.append((names, cs, act, kind, val, log))
    answers = ctx.model(reqs)
    if answers is None:
        return
    for (names, cs, act, kind, val, log), ans in zip(metas, answers):
        mk, mv, mlog = impl.decode_transition(ans)
        if (mk, mv) != (kind, val) or impl.norm_log(mlog) != impl.norm_log(log):
            d = case_dict(names, cs, act)
            d.update({'impl': [kind, val, log], 'model': [mk, mv, mlog]})
            ctx.disagreement('transition: implementation and model differ (result, exception class or draw log)', d)


def impl_tree(names, cs, act, max_leaves=20000, share=False):
    """every random outcome of the real code: list of ('ok', state) / ('err', name), in DFS order"""
    outs = []
    for script, r, log in enumerate_outcomes(lambda rng: impl.run_transition(names, cs, act, True, script=rng.script, share=share), max_leaves):
        outs.append((r[0], r[1], r[2]) if isinstance(r, tuple) else ('err', type(r).__name__, []))
    return outs


def run_trees(ctx, cases, tree_oracle=None):
    """full outcome trees: the SET of outcomes of the real code (ScriptedRng DFS) must equal the model's `leaves`"""
    reqs, metas = [], []
    for k, (names, cs, act) in enumerate(cases):
        outs = impl_tree(names, cs, act, share=(k % 2 == 1))     # every other tree: equal stateless objects are shared instances
        ctx.trees += 1
        ctx.tree_leaves += len(outs)
        ctx.count('outcome tree size', len(outs))
        if tree_oracle:
            tree_oracle(ctx, names, cs, act, outs)
        outs = [(k, v) for k, v, _ in outs]
        ctx.case(('tree', tuple(names), cs, act), len(outs) > 1, {'tree_of': [impl.TNAMES[n] for n in names], 'state': gen.show_state(cs),
                                                                 'action': impl.ACTS[act].name, 'outcomes': len(outs)})
        reqs.append([3, len(names), *names, 1, act, *wire.estate(cs)])
        metas.append((names, cs, act, outs))
    answers = ctx.model(reqs)
    if answers is None:
        return
    for (names, cs, act, outs), ans in zip(metas, answers):
        R = wire.Reader(ans)
        tag = R.z()
        if tag != 0:
            ctx.disagreement('model could not enumerate the outcome tree', case_dict(names, cs, act))
            continue
        mouts = R.lst(lambda: R.res(R.state))
        a = sorted(map(repr, outs))
        b = sorted(map(repr, mouts))
        if a != b:
            d = case_dict(names, cs, act)
            d.update({'impl_outcomes': outs[:20], 'model_outcomes': mouts[:20]})
            ctx.disagreement('outcome trees differ between implementation and model', d)


def interactive_world(r):
    """small, dense worlds in which histories matter: corridors and rooms with doors (closed / locked / open), keys, boxes, obstacles,
    telepods; the agent next to / facing something interactive as often as not"""
    T = gen.TY
    h, w = r.choice([(1, 4), (1, 5), (2, 4), (3, 3), (3, 4), (4, 4), (2, 5)])
    col = r.choice(gen.COLORS[1:])
    tcol = col if r.random() < 0.7 else 0          # telepods may be colourless
    pool = [gen.FLOOR] * 5 + [(T['Door'], 1, col, None), (T['Door'], 2, col, None), (T['Door'], 0, col, None), (T['Key'], 0, col, None),
                              (T['Box'], 0, 0, (T['Key'], 0, col, None)), (T['Box'], 0, 0, gen.FLOOR), (T['Box'], 0, 0, (T['Door'], r.choice([1, 2]), col, None)), gen.WALL, (T['MovingObstacle'], 0, 0, None),
                              (T['Telepod'], 0, tcol, None), (T['Exit'], 0, 0, None), (T['Exit'], 0, r.choice(gen.COLORS[1:]), None), (T['Beacon'], 0, r.choice(gen.COLORS[1:]), None)]
    g = tuple(tuple(r.choice(pool) for _ in range(w)) for _ in range(h))
    if r.random() < 0.3:
        # telepods come in groups of one colour (a single one never teleports): two or three of them, among doors / boxes / keys
        cells = [(y, x) for y in range(h) for x in range(w)]
        r.shuffle(cells)
        for c in cells[:r.choice([2, 2, 3])]:
            g = gen.set_cell(g, c, (T['Telepod'], 0, tcol, None))
    free = [(y, x) for y in range(h) for x in range(w) if g[y][x][0] in (T['Floor'], T['Exit'], T['Telepod']) or g[y][x] == (T['Door'], 0, col, None)]
    if not free:
        g = gen.set_cell(g, (0, 0), gen.FLOOR)
        free = [(0, 0)]
    p = r.choice(free)
    pods = [c for c in free if g[c[0]][c[1]][0] == T['Telepod']]
    near = [c for c in free if any((c[0] + d[0], c[1] + d[1]) in pods for d in _DIRS.values())]
    if (pods or near) and r.random() < 0.5:
        p = r.choice(pods + near)      # on a telepod, or one move away from one
    held = r.choice([gen.NONE, gen.NONE, (T['Key'], 0, col, None), (T['Key'], 0, r.choice(gen.COLORS[1:]), None)])
    o = r.randrange(4)
    facing = [d for d in range(4) if 0 <= p[0] + _DIRS[d][0] < h and 0 <= p[1] + _DIRS[d][1] < w
              and g[p[0] + _DIRS[d][0]][p[1] + _DIRS[d][1]][0] in (T['Door'], T['Box'], T['Key'])]
    if facing and r.random() < 0.65:
        o = r.choice(facing)          # heading value d faces direction _DIRS[d] (F up, B down, L left, R right)
    return (g, p, o, held)


def run_histories(ctx, n, step_oracle, length=(3, 10)):
    """Dynamics are history-free: ONE python state object is carried through a sequence of steps the way GridWorld carries it (each
    step works on a pickle copy of the previous state -- attributes cached on the objects travel along), under the full chain of all
    seven built-in transition functions; after every step the state is compared with the model applied to the previous state's VALUE,
    and `step_oracle(ctx, names, cs_before, act, kind, val, log, tape)` is evaluated.  Actions are biased to bump / actuate / move
    patterns (bump a closed door, open it, walk through; pick a key, unlock, drop)."""
    import pickle
    from gym_gridverse.envs import transition_functions as tf
    r = ctx.rng
    names = [0, 1, 4, 5, 2, 6, 3]
    reqs, metas = [], []
    for _ in range(n):
        cs = interactive_world(r)
        s = wire.mkstate(cs, share=r.random() < 0.3)      # one prototype object in several cells, as often as not
        hist = []
        # one history in three starts with the textbook door sequence: walk into what is in front (bump), ACTUATE, walk in
        script = [0, 6, 0] if r.random() < 0.35 else []
        for _k in range(max(r.randint(*length), len(script))):
            act = script.pop(0) if script else r.choice([0, 0, 0, 0, 6, 6, 6, 7, 7, 1, 2, 3, 4, 5])
            if r.random() < 0.12:
                # between two steps the world is edited through the public Grid interface (two cells swapped, a cell assigned): whatever
                # the library remembers about a grid must follow
                from gym_gridverse.geometry import Position
                gh, gw = s.grid.shape.height, s.grid.shape.width
                pa, pb = (r.randrange(gh), r.randrange(gw)), (r.randrange(gh), r.randrange(gw))
                special = [(yy, xx) for yy in range(gh) for xx in range(gw) if type(s.grid[Position(yy, xx)]).__name__ in ('Telepod', 'Door', 'Box', 'MovingObstacle')]
                if special and r.random() < 0.6:
                    pa = r.choice(special)       # relocate / replace something the dynamics care about
                if s.agent.position.yx not in (pa, pb):
                    if r.random() < 0.6:
                        s.grid.swap(Position(*pa), Position(*pb))
                    else:
                        s.grid[Position(*pa)] = wire.mkobj(r.choice([gen.FLOOR, gen.WALL, (gen.TY['Telepod'], 0, r.choice(gen.COLORS[1:]), None)]))
                    hist.append('grid edit')
            before = wire.cstate(s)
            s2 = pickle.loads(pickle.dumps(s))
            with impl.Journal(r.randrange(1 << 30)) as j:
                try:
                    for nm in names:
                        tf.transition_function_registry[impl.TNAMES[nm]](s2, impl.ACTS[act], rng=j.own)
                    kind, val = 'ok', wire.cstate(s2)
                except Exception as e:  # noqa: BLE001
                    kind, val = 'err', wire.EXN_NAMES.get(wire.exn_code(e), type(e).__name__)
            log, tape = list(j.log), list(j.tape)
            hist.append(impl.ACTS[act].name)
            if wire.cstate(s) != before:
                ctx.violation('a step on a copy modified the original state', dict(case_dict(names, before, act), history=list(hist)))
            step_oracle(ctx, names, before, act, kind, val, log, tape)
            ctx.count('history step', impl.ACTS[act].name)
            ctx.case(('hist', before, act, len(hist)), kind != 'ok' or val != before, None)
            reqs.append(impl.transition_request(names, True, act, before, tape))
            metas.append((before, act, kind, val, log, list(hist)))
            if kind != 'ok':
                break
            s = s2
    answers = ctx.model(reqs)
    if answers is None:
        return
    for (before, act, kind, val, log, hist), ans in zip(metas, answers):
        mk, mv, mlog = impl.decode_transition(ans)
        if (mk, mv) != (kind, val) or impl.norm_log(mlog) != impl.norm_log(log):
            d = case_dict(names, before, act)
            d.update({'impl': [kind, val, log], 'model': [mk, mv, mlog], 'history': hist})
            ctx.disagreement('a step after a history of other steps: implementation and model differ', d)
