"""Shared machinery for the transition-function properties (C01 C08 C09 C10 C11):
case generation, running the real registry functions with recording generators, comparison with the
extracted model (result, exception class, draw log), exhaustive outcome trees via ScriptedRng."""
import itertools as itt

import vt.boot  # noqa: F401

from vt import gen, impl, wire
from vt.rngproxy import enumerate_outcomes


def tup(x):
    return tuple(tup(v) for v in x) if isinstance(x, (list, tuple)) else x


def case_dict(names, cs, act):
    return {'functions': [impl.TNAMES[n] for n in names], 'state': gen.show_state(cs), 'action': impl.ACTS[act].name,
            'wire_state': cs, 'names': list(names), 'act': act}


def from_case(case):
    cs = tup(case['wire_state'])
    return list(case['names']), cs, case['act']


def corpus():
    """minimised past failures (DESIGN.md section 9), run first by every transition suite"""
    F = gen.FLOOR
    g3 = tuple(tuple(F for _ in range(3)) for _ in range(3))
    KEY = (gen.TY['Key'], 0, 4, None)
    TEL = (gen.TY['Telepod'], 0, 1, None)
    # D1 move_agent through the top / left / bottom / right edge
    for p, o in (((0, 1), 0), ((1, 0), 2), ((2, 1), 1), ((1, 2), 3)):
        yield ([0], (g3, p, o, gen.NONE), 0, 'corpus')
    # D2 pickndrop facing each edge, holding a key / empty-handed with a key on the opposite side
    for p, o in (((0, 1), 0), ((1, 0), 2), ((2, 1), 1), ((1, 2), 3)):
        yield ([2], (g3, p, o, KEY), 7, 'corpus')
        yield ([2], (gen.set_cell(gen.set_cell(g3, (2, 1), KEY), (1, 2), KEY), p, o, gen.NONE), 7, 'corpus')
    # D3 teleport on an unpaired telepod / on a telepod whose only other telepod has another colour
    yield ([6], (gen.set_cell(g3, (1, 1), TEL), (1, 1), 0, gen.NONE), 0, 'corpus')
    yield ([6], (gen.set_cell(gen.set_cell(g3, (1, 1), TEL), (0, 0), (gen.TY['Telepod'], 0, 2, None)), (1, 1), 0, gen.NONE), 6, 'corpus')
    # actuate facing each edge
    for p, o in (((0, 1), 0), ((1, 0), 2), ((2, 1), 1), ((1, 2), 3)):
        yield ([4, 5], (g3, p, o, KEY), 6, 'corpus')


def rand_names(r, focus=None):
    k = r.random()
    if focus is not None and k < 0.55:
        return [r.choice(focus)]
    if k < 0.75:
        return [r.randrange(7)]
    return [r.randrange(7) for _ in range(r.randint(2, 5))]


def random_cases(ctx, n, focus=None, types=None, colors=None, hi=6, floor_bias=0.5, state_fix=None):
    r = ctx.rng
    for _ in range(n):
        cs = gen.rand_state(r, types=types, colors=colors, hi=hi, floor_bias=floor_bias)
        if state_fix:
            cs = state_fix(r, cs)
        yield (rand_names(r, focus), cs, r.randrange(8), 'random')


def run_cases(ctx, cases, oracle, nontrivial=None):
    """runs impl (with recording rngs) on every case, applies the oracle, then compares with the model in one batch"""
    reqs, metas = [], []
    for names, cs, act, origin in cases:
        own = True
        kind, val, log, tape = impl.run_transition(names, cs, act, own, seed=ctx.rng.randrange(1 << 30))
        oracle(ctx, names, cs, act, kind, val, log, tape)
        nt = nontrivial(names, cs, act, kind, val) if nontrivial else (kind != 'ok' or val != cs)
        ctx.count('origin', origin)
        ctx.count('action', impl.ACTS[act].name)
        ctx.count('result', 'raised ' + val if kind != 'ok' else ('changed' if val != cs else 'unchanged'))
        for n in names:
            ctx.count('function', impl.TNAMES[n])
        ctx.case((tuple(names), cs, act), nt, {'functions': [impl.TNAMES[n] for n in names], 'state': gen.show_state(cs),
                                              'action': impl.ACTS[act].name, 'result': kind, 'draws': len(log)})
        reqs.append(impl.transition_request(names, own, act, cs, tape))
        metas.append((names, cs, act, kind, val, log))
    answers = ctx.model(reqs)
    if answers is None:
        return
    for (names, cs, act, kind, val, log), ans in zip(metas, answers):
        mk, mv, mlog = impl.decode_transition(ans)
        if (mk, mv) != (kind, val) or impl.norm_log(mlog) != impl.norm_log(log):
            d = case_dict(names, cs, act)
            d.update({'impl': [kind, val, log], 'model': [mk, mv, mlog]})
            ctx.disagreement('transition: implementation and model differ (result, exception class or draw log)', d)


def impl_tree(names, cs, act, max_leaves=20000):
    """every random outcome of the real code: list of ('ok', state) / ('err', name), in DFS order"""
    outs = []
    for script, r, log in enumerate_outcomes(lambda rng: impl.run_transition(names, cs, act, True, script=rng.script), max_leaves):
        outs.append((r[0], r[1], r[2]) if isinstance(r, tuple) else ('err', type(r).__name__, []))
    return outs


def run_trees(ctx, cases, tree_oracle=None):
    """full outcome trees: the SET of outcomes of the real code (ScriptedRng DFS) must equal the model's `leaves`"""
    reqs, metas = [], []
    for names, cs, act in cases:
        outs = impl_tree(names, cs, act)
        ctx.trees += 1
        ctx.tree_leaves += len(outs)
        ctx.count('outcome tree size', len(outs))
        if tree_oracle:
            tree_oracle(ctx, names, cs, act, outs)
        outs = [(k, v) for k, v, _ in outs]
        ctx.case(('tree', tuple(names), cs, act), len(outs) > 1, {'tree_of': [impl.TNAMES[n] for n in names], 'state': gen.show_state(cs),
                                                                 'action': impl.ACTS[act].name, 'outcomes': len(outs)})
        reqs.append([3, len(names), *names, 1, act, *wire.estate(cs)])
        metas.append((names, cs, act, outs))
    answers = ctx.model(reqs)
    if answers is None:
        return
    for (names, cs, act, outs), ans in zip(metas, answers):
        R = wire.Reader(ans)
        tag = R.z()
        if tag != 0:
            ctx.disagreement('model could not enumerate the outcome tree', case_dict(names, cs, act))
            continue
        mouts = R.lst(lambda: R.res(R.state))
        a = sorted(map(repr, outs))
        b = sorted(map(repr, mouts))
        if a != b:
            d = case_dict(names, cs, act)
            d.update({'impl_outcomes': outs[:20], 'model_outcomes': mouts[:20]})
            ctx.disagreement('outcome trees differ between implementation and model', d)
