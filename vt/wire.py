"""Python side of the wire format of coq/Model/Wire.v (flat lists of integers)."""
import inspect

import vt.boot  # noqa: F401
from gym_gridverse.action import Action
from gym_gridverse.agent import Agent
from gym_gridverse.geometry import Area, Orientation, Position
from gym_gridverse.grid import Grid
from gym_gridverse.grid_object import Color, GridObject, NoneGridObject, grid_object_registry
from gym_gridverse.state import State

EXN_CODES = {
    'IndexError': 1, 'ValueError': 2, 'TypeError': 3, 'StopIteration': 4, 'NotImplementedError': 5,
    'RuntimeError': 6, 'ZeroDivisionError': 7, 'SchemaError': 8, 'KeyError': 9, 'AssertionError': 10,
}
EXN_NAMES = {v: k for k, v in EXN_CODES.items()}
REQ_KINDS = {1: 'choice', 2: 'integers', 3: 'sample', 4: 'perm', 5: 'unif'}
REQ_CODES = {v: k for k, v in REQ_KINDS.items()}


def exn_code(e):
    for cls in type(e).__mro__:
        if cls.__name__ in EXN_CODES:
            return EXN_CODES[cls.__name__]
    if type(e).__name__.startswith('Schema'):
        return EXN_CODES['SchemaError']
    return 99


# ---- canonical (hashable, comparable) forms ----
_SUB = {}          # built-in class -> an (unregistered) user subclass of it
_SUB_PARENT = {}   # that subclass -> the built-in class


def subclass_of(cls):
    """a user-defined subclass of a built-in grid-object class (not registered: the registry and every type index stay as they are).
    Everything the library does with `isinstance` must treat its instances exactly like instances of the parent."""
    if cls not in _SUB:
        import types
        sub = types.new_class('User' + cls.__name__, (cls,), {'register': False})
        _SUB[cls] = sub
        _SUB_PARENT[sub] = cls
    return _SUB[cls]


def cobj(o):
    """(type_index, state_index, colour value, content or None); an instance of a user subclass made by `subclass_of` counts as its parent"""
    c = getattr(o, 'content', None)
    t = _SUB_PARENT.get(type(o), type(o))
    return (t.type_index(), int(o.state_index), int(o.color.value), cobj(c) if c is not None else None)


def cgrid(g):
    return tuple(tuple(cobj(o) for o in row) for row in g.objects)


def cstate(s):
    return (cgrid(s.grid), (int(s.agent.position.y), int(s.agent.position.x)),
            int(s.agent.orientation.value), cobj(s.agent.grid_object))


# ---- building python objects from canonical forms ----
_CTOR = {}


def _ctor(ty):
    if ty not in _CTOR:
        cls = grid_object_registry[ty]
        names = [n for n in list(inspect.signature(cls.__init__).parameters)[1:] if n not in ('args', 'kwargs')]
        for n in names:
            if n not in ('color', 'state', 'content'):
                raise ValueError(f'unknown ctor parameter {n}')
        _CTOR[ty] = (cls, tuple(names))
    return _CTOR[ty]


_COLORS = {c.value: c for c in Color}


def mkobj(c, sub=None):
    ty, st, col, content = c
    cls, names = _ctor(ty)
    if sub is not None and ty == sub:
        cls = subclass_of(cls)
    if not names:
        return cls()
    kwargs = {}
    for pname in names:
        if pname == 'color':
            kwargs[pname] = _COLORS[col]
        elif pname == 'state':
            kwargs[pname] = cls.Status(st)
        else:
            kwargs[pname] = mkobj(content, sub)
    return cls(**kwargs)


def mkgrid(cg, share=False, sub=None):
    if not share:
        return Grid([[mkobj(c, sub) for c in row] for row in cg])
    # equal objects which no built-in function modifies (no status anywhere: not a door, not a box holding a door) are ONE python object
    # placed in several cells -- a box prototype used for several cells is as legitimate as a wall prototype
    pool = {}

    def has_status(c):
        cls, names = _ctor(c[0])
        return 'state' in names or (c[3] is not None and has_status(c[3]))

    def get(c):
        if has_status(c):
            return mkobj(c, sub)
        if c not in pool:
            pool[c] = mkobj(c, sub)
        return pool[c]
    return Grid([[get(c) for c in row] for row in cg])


def mkstate(cs, share=False, sub=None):
    """sub: a type index all of whose instances (grid, contents, hand) are made from a user subclass of that built-in type"""
    cg, (y, x), o, held = cs
    h = mkobj(held, sub)
    return State(mkgrid(cg, share, sub), Agent(Position(y, x), Orientation(o), h))


# ---- encoders (canonical form -> ints) ----
def eobj(c):
    ty, st, col, content = c
    return [ty, st, col] + ([0] if content is None else [1] + eobj(content))


def egrid(cg):
    out = [len(cg), len(cg[0]) if cg else 0]
    for row in cg:
        for c in row:
            out.extend(eobj(c))
    return out


def estate(cs):
    cg, (y, x), o, held = cs
    return egrid(cg) + [y, x, o] + eobj(held)


def etape(tape):
    out = [len(tape)]
    for ans in tape:
        out.append(len(ans))
        out.extend(int(v) for v in ans)
    return out


def earea(a):
    return [a.ymin, a.ymax, a.xmin, a.xmax] if isinstance(a, Area) else list(a)


# ---- decoders (ints -> canonical form) ----
class Reader:
    def __init__(self, ints):
        self.l = ints
        self.i = 0

    def z(self):
        v = self.l[self.i]
        self.i += 1
        return v

    def done(self):
        return self.i == len(self.l)

    def obj(self):
        ty, st, col, n = self.z(), self.z(), self.z(), self.z()
        return (ty, st, col, self.obj() if n == 1 else None)

    def grid(self):
        h, w = self.z(), self.z()
        return tuple(tuple(self.obj() for _ in range(w)) for _ in range(h))

    def state(self):
        g = self.grid()
        y, x, o = self.z(), self.z(), self.z()
        return (g, (y, x), o, self.obj())

    def pos(self):
        return (self.z(), self.z())

    def lst(self, f):
        return [f() for _ in range(self.z())]

    def reqs(self):
        return [(self.z(), REQ_KINDS[self.z()], self.z(), self.z()) for _ in range(self.z())]

    def res(self, f):
        tag = self.z()
        if tag == 0:
            return ('ok', f())
        if tag == 1:
            return ('err', EXN_NAMES.get(self.z(), '?'))
        raise ValueError(f'bad res tag {tag}')

    def outcome(self, f):
        """-> (kind, value, request log)"""
        tag = self.z()
        if tag == 0:
            log = self.reqs()
            return ('ok', f(), log)
        if tag == 1:
            e = EXN_NAMES.get(self.z(), '?')
            return ('err', e, self.reqs())
        if tag == 2:
            return ('badtape', None, self.reqs())
        if tag == -777:
            return ('undecodable', None, [])
        if tag == 4:
            return ('shorttape', None, self.reqs())
        if tag == 5:
            return ('longtape', None, self.reqs())
        raise ValueError(f'bad outcome tag {tag}')
